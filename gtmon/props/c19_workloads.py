"""Workloads of C19: they only build objects and call draw_*; the postconditions
attached in c19.py judge the artists.  Figures are closed per case."""
import math
import numpy as np

from ..run import Workload
from ..ref import hyp as rh
from ..ref import circles as rc
from ..ref import draw as rd

HMODELS = ["poincare", "halfspace", "klein"]


def libs():
    from geometry_tools import hyperbolic as H, drawtools as D, projective as PR
    import matplotlib.pyplot as plt
    return H, D, PR, plt


TRANSFORM_ROUTES = [("constructor",), ("set",), ("constructor", "add"), ("constructor", "precompose"),
                    ("add",), ("precompose",), ("set", "precompose", "add"), ("constructor", "add", "precompose")]


def alt_signs(n, cls, phase=0):
    """+-1 per unit for the sign class of homogeneous representatives:
    '+' all positive, '-' all negative, 'mixed' alternating (unit j negative
    when j + phase is even).  A point of hyperbolic / projective space does not
    depend on the sign of its representative, so nothing drawn may depend on it
    (seeded change C19-r4-3: a formula valid for positive time coordinate only)."""
    if cls == "+":
        return np.ones(n)
    if cls == "-":
        return -np.ones(n)
    return np.where((np.arange(n) + phase) % 2 == 0, -1.0, 1.0)


def make_drawing(rng, model, transform_kind, plt, D, H, own_axes=False, negate=False):
    """HyperbolicDrawing with identity or a random certified isometry; returns
    (drawing, A) with A the column-convention matrix (reference side).  With
    `negate` the library is handed -B for the first step of the route: the same
    isometry of hyperbolic space written with the other sign (it maps the future
    cone to the past cone, so every transformed representative has a negative
    time coordinate); the reference keeps B."""
    A = np.eye(3)
    kwargs = {}
    later = []
    lib_sign = [-1.0 if negate else 1.0]

    def lib_matrix(B):
        return B * (lib_sign.pop() if lib_sign else 1.0)
    if transform_kind == "isometry":
        # the drawing's transform is reached through one of its histories:
        # constructor argument, set_transform, add_transform (applied after what
        # is there), precompose_transform (applied before it).  Seeded change
        # C19-r3-3: precompose_transform composing in the reverse order.
        route = TRANSFORM_ROUTES[int(rng.integers(len(TRANSFORM_ROUTES)))]
        for step in route:
            B = rh.rand_isometry(rng, 2, tmax=0.7)
            if step == "constructor":
                kwargs["transform"] = H.Isometry(lib_matrix(B), column_vectors=True)
                A = B
            else:
                later.append((step, B))
    if own_axes:
        fig, axs = plt.subplots(1, 2)
        kwargs.update(ax=axs[0], fig=fig)
    d = D.HyperbolicDrawing(model=model, **kwargs)
    for step, B in later:
        T = H.Isometry(lib_matrix(B), column_vectors=True)
        if step == "set":
            d.set_transform(T)
            A = B
        elif step == "add":
            d.add_transform(T)
            A = B @ A
        else:
            d.precompose_transform(T)
            A = A @ B
    d._gtmon_matrix = A
    return d, A


def pull_back(A, K):
    """homogeneous data whose image under x -> A x has Klein coordinates K,
    with arbitrary positive/negative scalings of the representatives."""
    X = rh.klein_to_proj(K)
    return rd.apply_columns(np.linalg.inv(A), X)


def rand_poly_klein(rng, nv, cls, model):
    """Klein coordinates (in drawing coordinates) of an nv-gon of class cls."""
    for _ in range(200):
        if cls == "random":
            K = rh.rand_ball(rng, 2, (nv,), rmax=0.9)
        elif cls == "near-boundary":
            K = rh.rand_ball(rng, 2, (nv,), rmax=0.995, rmin=0.9)
        elif cls in ("convex", "star"):
            c = rh.rand_ball(rng, 2, (), rmax=0.4)
            ang = np.sort(rng.uniform(0, 2 * math.pi, nv))
            rad = rng.uniform(0.15, 0.5, nv)
            if cls == "convex":
                rad = np.full(nv, rng.uniform(0.15, 0.5))
            else:
                rad[::2] *= 0.35
            K = c + rad[:, None] * np.stack([np.cos(ang), np.sin(ang)], -1)
        elif cls == "short-edge":
            K = rh.rand_ball(rng, 2, (nv,), rmax=0.85)
            K[1] = K[0] + rh.rand_sphere(rng, 2) * rng.uniform(3e-3, 2e-2)
        elif cls == "through-origin":
            K = rh.rand_ball(rng, 2, (nv,), rmax=0.9)
            u = rh.rand_sphere(rng, 2)
            K[0] = u * rng.uniform(0.1, 0.9)
            K[1] = -u * rng.uniform(0.1, 0.9) if rng.random() < 0.7 else u * rng.uniform(0.1, 0.9) * 0.5
        else:
            raise ValueError(cls)
        sep = np.linalg.norm(np.roll(K, -1, axis=0) - K, axis=-1)
        if np.max(np.linalg.norm(K, axis=-1)) < 0.999 and np.min(sep) > 2.5e-3:
            if model == "halfspace":
                W = rc.model_of_klein(K, "halfspace")
                if np.min(rc.inf_distance(K)) < 0.1 or np.max(np.abs(W[:, 0])) > 6.5:
                    continue
            return K
    return None


RADII = [40.0, 79.0, 79.9, 80.2, 81.0, 200.0, 1e4]


def nearly_straight_poly(rng, nv, model, r):
    """polygon whose first edge has reference radius r in the model."""
    for _ in range(200):
        if model == "poincare":
            foot = 1.0 / math.sqrt(1.0 + r * r)
            u = rh.rand_sphere(rng, 2)
            w = np.array([-u[1], u[0]])
            a, b = rng.uniform(-0.85, -0.1), rng.uniform(0.1, 0.85)
            if rng.random() < 0.3:
                a = rng.uniform(0.05, 0.3)
            K01 = np.stack([foot * w + a * u, foot * w + b * u])
            rest = rh.rand_ball(rng, 2, (nv - 2,), rmax=0.85)
        else:
            # circle centred at (x0, 0) with radius r passing close to the view
            side = rng.choice([-1.0, 1.0])
            xa = rng.uniform(-4, 4)
            x0 = xa + side * r
            y1, y2 = sorted(rng.uniform(0.15, 6.0, 2))
            if y2 - y1 < 0.3:
                continue
            pts = []
            for y in (y1, y2):
                pts.append([x0 - side * math.sqrt(r * r - y * y), y])
            pts = np.array(pts)
            if rng.random() < 0.5:
                pts = pts[::-1]
            K01 = rc.halfspace_to_klein(pts)
            hs = np.stack([rng.uniform(-5, 5, nv - 2), rng.uniform(0.2, 6, nv - 2)], -1)
            rest = rc.halfspace_to_klein(hs)
        K = np.concatenate([K01, rest])
        sep = np.linalg.norm(np.roll(K, -1, axis=0) - K, axis=-1)
        if np.min(sep) > 2.5e-3 and np.max(np.linalg.norm(K, axis=-1)) < 0.9995:
            if model == "halfspace" and np.min(rc.inf_distance(K)) < 0.05:
                continue
            return K
    return None


POLY_CLASSES = ["random", "convex", "star", "through-origin", "nearly-straight",
                "short-edge", "near-boundary", "random"]


def wl_polygons(run, rng, idx):
    H, D, PR, plt = libs()
    model = HMODELS[idx % 3] if idx % 9 != 8 else "halfplane"
    mname = "halfspace" if model == "halfplane" else model
    cls = POLY_CLASSES[(idx // 3) % len(POLY_CLASSES)]
    tk = "isometry" if (idx // 24) % 2 else "identity"
    nv = 3 + (idx // 48 + idx) % 6
    count = [1, 1, 3][(idx // 7) % 3]
    # sign classes of the vertex representatives (all positive / every second
    # polygon negative / alternating from vertex to vertex) and the isometry
    # written as -A: the drawn polygon must not depend on either
    sign_cls = ["+", "+", "polygon", "vertex"][(idx // 5) % 4]
    negate = tk == "isometry" and (idx // 2) % 2 == 1
    d, A = make_drawing(rng, model, tk, plt, D, H, negate=negate)
    try:
        Ks = []
        for _ in range(count):
            if cls == "nearly-straight" and mname != "klein":
                r = RADII[int(rng.integers(len(RADII)))]
                K = nearly_straight_poly(rng, nv, mname, r)
            elif cls == "through-origin" and mname == "halfspace":
                K = rand_poly_klein(rng, nv, "random", mname)
            else:
                K = rand_poly_klein(rng, nv, cls if cls != "nearly-straight" else "random", mname)
            if K is None:
                return run.monitor("polygon-path").skip("generator found no polygon")
            Ks.append(K)
        Ks = np.array(Ks)
        X = pull_back(A, Ks)
        X = X * rng.uniform(0.5, 2.0, size=X.shape[:-1] + (1,))
        if sign_cls == "polygon":
            X = X * alt_signs(count, "mixed")[:, None, None]
        elif sign_cls == "vertex":
            X = X * alt_signs(nv, "mixed", idx)[None, :, None]
        if count == 1:
            X = X[0]
        run.current_case = {"workload": "polygons", "model": model, "class": cls,
                            "transform": tk, "matrix": A, "library_matrix_negated": negate,
                            "representative_signs": sign_cls, "vertices": X}
        poly = H.Polygon(X) if idx % 2 else H.Polygon(H.Point(X))
        d.draw_polygon(poly, facecolor="lightgreen")
        run.note_class("polygons", mname, cls, tk, nv, count)
        run.note_class("polygon-signs", mname, sign_cls, negate)
        if idx < 3:
            run.sample(run.current_case)
    finally:
        plt.close("all")


def wl_halfplane_infinite_vertex(run, rng, idx):
    """half-plane polygons with an ideal vertex at the point at infinity (the
    modular-group picture): the library supports them explicitly
    (get_vertical_segment / up_infinity).  Every sampled point of the drawn path
    lies on the arc between two consecutive finite vertices, on the vertical ray
    above a finite neighbour of the vertex at infinity, or off screen above
    up_infinity where the two rays are joined (seeded change C19-r2-1: the edge
    starting at infinity no longer reversed, the path cuts across the polygon)."""
    H, D, PR, plt = libs()
    from ..ref import draw as rd
    mon = run.monitor("polygon-path")
    nfin = 2 + idx % 3
    pos = idx % (nfin + 1)                 # where the vertex at infinity is inserted
    d, A = make_drawing(rng, "halfplane", "identity", plt, D, H)
    try:
        xs = np.sort(rng.uniform(-2.5, 2.5, size=nfin))
        if np.min(np.diff(xs)) < 0.3:
            return mon.skip("finite vertices too close")
        ys = rng.uniform(0.4, 2.0, size=nfin)
        fin = np.stack([xs, ys], axis=-1)
        if idx % 2:
            fin = fin[::-1]
        K = rc.halfspace_to_klein(fin)
        Xf = np.concatenate([np.ones((nfin, 1)), K], axis=-1)
        inf = np.array([[1.0, 1.0, 0.0]])
        X = np.concatenate([Xf[:pos], inf, Xf[pos:]], axis=0)
        X = X * rng.uniform(0.5, 2.0, size=(nfin + 1, 1))
        case = {"workload": "halfplane-infinite-vertex", "finite_vertices_halfplane": fin,
                "position_of_infinity": pos, "vertices": X}
        run.current_case = case
        before = list(d.ax.patches)
        d.draw_polygon(H.Polygon(X), facecolor="lightgreen")
        new = [a for a in d.ax.patches if a not in before]
        if len(new) != 1:
            return mon.fail("polygon-path/infinite-vertex/artist-count",
                            "draw_polygon added %d patches" % len(new), case)
        path = new[0].get_path()
        moves, pieces = rd.pieces_of(path)
        # off screen above: from the Axes limits and the margin factor, not from the
        # drawing's cached up_infinity
        y0_, y1_ = d.ax.get_ylim()
        up = float(y1_ + D.OFFSCREEN_FACTOR * (y1_ - y0_))
        n = nfin + 1
        verts = [None if k == pos else fin[k if k < pos else k - 1] for k in range(n)]
        edges = [(verts[k], verts[(k + 1) % n]) for k in range(n)]

        def defect(pt):
            best = np.inf
            for p_, q_ in edges:
                if p_ is None or q_ is None:
                    f = q_ if p_ is None else p_
                    if pt[1] >= f[1] - 1e-6:
                        best = min(best, abs(pt[0] - f[0]))
                    continue
                if abs(p_[0] - q_[0]) < 1e-12:
                    continue
                c = (q_ @ q_ - p_ @ p_) / (2 * (q_[0] - p_[0]))
                r = math.hypot(p_[0] - c, p_[1])
                lo, hi = sorted([p_[0], q_[0]])
                if lo - 1e-6 <= pt[0] <= hi + 1e-6:
                    best = min(best, abs(math.hypot(pt[0] - c, pt[1]) - r))
            return best
        worst = 0.0
        for pc in pieces:
            for pt in pc.pts:
                if not np.all(np.isfinite(pt)):
                    return mon.fail("polygon-path/infinite-vertex/non-finite-path",
                                    "the path of a polygon with a vertex at infinity has "
                                    "non-finite coordinates", case)
                if pt[1] >= up - 1e-6:
                    continue                      # the join of the two rays, off screen
                worst = max(worst, defect(pt))
        mon.judge(worst, 2e-3, "polygon-path/infinite-vertex/leaves-the-edges",
                  "a visible sampled point of the path of a half-plane polygon with a vertex at "
                  "infinity lies on none of its edges (Euclidean defect)", case)
        mon.require(moves == 1, "polygon-path/infinite-vertex/moveto-count",
                    "the path has %d MOVETO codes" % moves, case)
        run.note_class("halfplane-infinite-vertex", nfin, pos, bool(idx % 2))
    finally:
        plt.close("all")


def wl_geodesics(run, rng, idx):
    H, D, PR, plt = libs()
    model = HMODELS[idx % 3]
    kind = ["segment", "segment", "geodesic", "segment-ideal"][(idx // 3) % 4]
    tk = "isometry" if (idx // 12) % 2 else "identity"
    thr_kw = [None, None, 3.0, 0.8][(idx // 24) % 4]
    shape = [(), (4,), (2, 3)][(idx // 5) % 3]
    sign_cls = [("+", "+"), ("+", "-"), ("mixed", "mixed"), ("-", "+")][(idx // 7) % 4]
    negate = tk == "isometry" and (idx // 2) % 2 == 1
    d, A = make_drawing(rng, model, tk, plt, D, H, negate=negate)
    try:
        n = int(np.prod(shape)) if shape else 1
        Kp = rh.rand_ball(rng, 2, (n,), rmax=0.9)
        Kq = rh.rand_ball(rng, 2, (n,), rmax=0.9)
        if kind == "geodesic":
            Kp, Kq = rh.rand_sphere(rng, 2, (n,)), rh.rand_sphere(rng, 2, (n,))
        elif kind == "segment-ideal":
            Kq = rh.rand_sphere(rng, 2, (n,))
        if (idx // 96) % 3 == 1 and model == "poincare" and kind == "segment":
            # through / near the origin
            u = rh.rand_sphere(rng, 2, (n,))
            Kp = u * rng.uniform(0.1, 0.9, (n, 1))
            Kq = -u * rng.uniform(0.1, 0.9, (n, 1)) + np.stack([-u[:, 1], u[:, 0]], -1) * \
                rng.choice([0.0, 1e-9, 1e-3, 0.012], (n, 1))
        if model == "halfspace":
            for K in (Kp, Kq):
                bad = rc.inf_distance(K) < 0.15
                K[bad] = -K[bad]
            W = rc.model_of_klein(np.where(np.linalg.norm(Kp, axis=-1, keepdims=True) >= 1, Kp * 0.999999, Kp), "halfspace")
        far = np.linalg.norm(Kp - Kq, axis=-1) < 0.01
        Kq[far] = -Kq[far]
        P = (pull_back(A, Kp) * alt_signs(n, sign_cls[0], 0)[:, None]).reshape(shape + (3,))
        Q = (pull_back(A, Kq) * alt_signs(n, sign_cls[1], 1)[:, None]).reshape(shape + (3,))
        run.current_case = {"workload": "geodesics", "model": model, "kind": kind,
                            "transform": tk, "matrix": A, "library_matrix_negated": negate,
                            "representative_signs": list(sign_cls), "P": P, "Q": Q,
                            "threshold": thr_kw}
        if kind == "geodesic":
            obj = H.Geodesic(H.IdealPoint(P), H.IdealPoint(Q))
        else:
            obj = H.Segment(H.Point(P), H.Point(Q))
        if thr_kw is None:
            d.draw_geodesic(obj, color="gray") if idx % 2 else d.draw_geodesic(obj)
        else:
            d.draw_geodesic(obj, radius_threshold=thr_kw)
        run.note_class("geodesics", model, kind, tk, shape, thr_kw)
        run.note_class("geodesic-signs", model, kind, sign_cls, negate)
    finally:
        plt.close("all")


def wl_points(run, rng, idx):
    H, D, PR, plt = libs()
    model = HMODELS[idx % 3]
    tk = "isometry" if (idx // 3) % 2 else "identity"
    shape = [(), (5,), (2, 3)][(idx // 6) % 3]
    setting = ["current", "current", "second-drawing-open", "own-axes"][(idx // 18) % 4]
    sign_cls = ["+", "mixed", "-"][(idx // 5) % 3]
    negate = tk == "isometry" and (idx // 2) % 2 == 1
    d, A = make_drawing(rng, model, tk, plt, D, H, own_axes=(setting == "own-axes"), negate=negate)
    try:
        if setting == "second-drawing-open":
            other = D.HyperbolicDrawing(model=model)     # becomes pyplot's current figure
        K = rh.rand_ball(rng, 2, shape, rmax=0.95)
        if model == "halfspace":
            K = np.where(rc.inf_distance(K)[..., None] < 0.15, -K, K)
        X = pull_back(A, K) * rng.uniform(0.5, 2, size=shape + (1,))
        X = X * alt_signs(int(np.prod(shape)) if shape else 1, sign_cls, idx).reshape(shape + (1,))
        run.current_case = {"workload": "points", "model": model, "transform": tk,
                            "setting": setting, "matrix": A, "library_matrix_negated": negate,
                            "representative_signs": sign_cls, "points": X}
        d.draw_point(H.Point(X), color="red", marker="x") if idx % 2 else d.draw_point(H.Point(X))
        run.note_class("points", model, tk, shape, setting)
        run.note_class("point-signs", model, sign_cls, negate)
    finally:
        plt.close("all")


def wl_horo(run, rng, idx):
    H, D, PR, plt = libs()
    model = ["poincare", "halfspace"][idx % 2]
    tk = "isometry" if (idx // 2) % 2 else "identity"
    what = ["horosphere", "horoarc", "horosphere", "horoarc", "horosphere-at-infinity",
            "horoarc-big"][(idx // 4) % 6]
    n = [1, 2, 5][(idx // 24) % 3]
    if what == "horoarc-big":
        model = "halfspace"      # horocycles of Euclidean radius > RADIUS_THRESHOLD
    if what == "horosphere-at-infinity":
        tk = "identity"          # the centre must be the point at infinity exactly
    # sign classes (centre, reference point) of the representatives, and the
    # drawing's isometry written as -A: after the drawing transform the reference
    # point / centre has a negative time coordinate in every combination but
    # (+, A) and (-, -A).  Seeded change C19-r4-3.
    sign_cls = [("+", "+"), ("+", "-"), ("-", "+"), ("-", "-"), ("mixed", "mixed")][idx % 5]
    negate = tk == "isometry" and (idx // 3) % 2 == 1
    d, A = make_drawing(rng, model, tk, plt, D, H, negate=negate)
    try:
        from .c14_workloads import make_horoarc_data
        data = make_horoarc_data(rng, (n,))
        if data is None:
            return run.monitor("horoarc-artist").skip("generator")
        e, k1, k2 = data
        if what == "horoarc-big":
            a = rng.uniform(-2, 2, n)
            R = rng.uniform(100, 300, n)
            t1 = rng.uniform(0.004, 0.02, n) * rng.choice([-1, 1], n)
            t2 = -t1 * rng.uniform(0.5, 1.5, n)
            e = rc.halfspace_to_klein(np.stack([a, 0 * a], -1))
            k1 = rc.halfspace_to_klein(np.stack([a + R * np.sin(t1), R * (1 - np.cos(t1))], -1))
            k2 = rc.halfspace_to_klein(np.stack([a + R * np.sin(t2), R * (1 - np.cos(t2))], -1))
        if what == "horosphere-at-infinity":
            if model != "halfspace":
                return
            e = np.broadcast_to(np.array([1.0, 0.0]), (n, 2)).copy()
        E, P1, P2 = pull_back(A, e), pull_back(A, k1), pull_back(A, k2)
        E = E * alt_signs(n, sign_cls[0], 1)[:, None]
        P1 = P1 * alt_signs(n, sign_cls[1], 0)[:, None]
        P2 = P2 * alt_signs(n, sign_cls[0], 0)[:, None]
        run.current_case = {"workload": "horo", "what": what, "model": model, "transform": tk,
                            "matrix": A, "library_matrix_negated": negate,
                            "representative_signs": list(sign_cls), "centre": E, "p1": P1, "p2": P2}
        if what.startswith("horosphere"):
            hs = H.Horosphere(H.IdealPoint(E), H.Point(P1))
            if n == 1 and idx % 3 == 0:
                hs = H.Horosphere(H.IdealPoint(E[0]), H.Point(P1[0]))
            d.draw_horosphere(hs, edgecolor="red") if idx % 2 else d.draw_horosphere(hs)
        else:
            ha = H.HorosphereArc(H.IdealPoint(E), H.Point(P1), H.Point(P2))
            if n == 1 and idx % 3 == 0:
                ha = H.HorosphereArc(H.IdealPoint(E[0]), H.Point(P1[0]), H.Point(P2[0]))
            d.draw_horoarc(ha, edgecolor="blue") if idx % 4 == 1 else d.draw_horoarc(ha)
        run.note_class("horo", what, model, tk, n)
        run.note_class("horo-signs", what.split("-")[0], model, sign_cls[1], negate)
    finally:
        plt.close("all")


def wl_projective(run, rng, idx):
    H, D, PR, plt = libs()
    ci = idx % 3
    tk = "map" if (idx // 3) % 2 else "identity"
    what = ["point", "segment", "polygon", "polygon-nonaffine-option"][(idx // 6) % 4]
    shape = [(), (4,), (2, 2)][(idx // 24) % 3]
    setting = "own-axes" if idx % 5 == 4 else "current"
    A = np.eye(3)
    kwargs = {}
    later = []
    if tk == "map":
        def rand_map():
            while True:
                B = rng.normal(size=(3, 3)) + np.eye(3)
                if np.linalg.cond(B) < 12:
                    return B
        route = TRANSFORM_ROUTES[int(rng.integers(len(TRANSFORM_ROUTES)))]
        # the same projective map written as -B (first step of the route) on
        # every second pair of cases: the library gets lib_sign * B, the reference B
        lib_sign = [-1.0] if (idx // 2) % 2 else []
        for step in route:
            B = rand_map()
            if step == "constructor":
                kwargs["transform"] = PR.Transformation(B * (lib_sign.pop() if lib_sign else 1.0),
                                                        column_vectors=True)
                A = B
            else:
                later.append((step, B, lib_sign.pop() if lib_sign else 1.0))
    if setting == "own-axes":
        fig, axs = plt.subplots(1, 2)
        kwargs.update(ax=axs[0], fig=fig)
    if what == "polygon-nonaffine-option":
        ci = 0
    d = D.ProjectiveDrawing(chart_index=ci, **kwargs)
    for step, B, sgn in later:
        T = PR.Transformation(sgn * B, column_vectors=True)
        if step == "set":
            d.set_transform(T)
            A = B
        elif step == "add":
            d.add_transform(T)
            A = B @ A
        else:
            d.precompose_transform(T)
            A = A @ B
    d._gtmon_matrix = A
    try:
        def chart_points(shp):
            aff = rng.uniform(-4, 4, size=shp + (2,))
            Y = np.insert(aff, ci, 1.0, axis=-1)
            Y = Y * rng.uniform(0.5, 2, size=shp + (1,)) * rng.choice([-1.0, 1.0], size=shp[:max(len(shp) - 1, 0)] + (1,) * (1 + (len(shp) > 0)))
            return rd.apply_columns(np.linalg.inv(A), Y)

        def crossing_points(shp, nv, mixed):
            """polygons that cross the chart's line at infinity exactly twice: the
            representatives of one cyclic run of vertices (random start, random
            length 1..nv-1) carry the opposite sign of the others.  In a composite
            the first sign change falls at different vertex indices in different
            polygons (sign patterns ++-- next to +--+ ...; seeded change C19-r4-1:
            every polygon of the composite cut at the first polygon's index); with
            `mixed` every second polygon stays inside the chart."""
            aff = rng.uniform(-4, 4, size=shp + (nv, 2))
            Y = np.insert(aff, ci, 1.0, axis=-1) * rng.uniform(0.5, 2, size=shp + (nv, 1))
            flat = Y.reshape((-1, nv, 3))
            for _ in range(100):
                sgn = np.ones((len(flat), nv))
                first = set()
                for j in range(len(flat)):
                    if mixed and j % 2 == 1:
                        sgn[j] = rng.choice([-1.0, 1.0])
                        continue
                    s0, m = int(rng.integers(nv)), int(rng.integers(1, nv))
                    sgn[j] = -1.0
                    sgn[j, [(s0 + t) % nv for t in range(m)]] = 1.0
                    if rng.random() < 0.5:
                        sgn[j] = -sgn[j]
                    first.add(int(np.argmax(sgn[j] != sgn[j, 0])))
                ncross = len(flat) if not mixed else (len(flat) + 1) // 2
                if ncross < 2 or len(first) >= 2:
                    break
            Y = (flat * sgn[..., None]).reshape(shp + (nv, 3))
            return rd.apply_columns(np.linalg.inv(A), Y)

        def wedge_points(shp, nv):
            """polygons crossing the line at infinity whose vertices lie far outside
            the view: one run of vertices (positive representatives) around the point
            at distance L = 0.5..50 view diameters from the view's centre, the other
            run (negative representatives) either further out on the same side --
            then the unbounded edges come back through the window -- or on the
            opposite side; regenerated until the representatives span a convex cone
            (always for triangles), so that the coverage of the view is judged.
            Seeded change C19-r5-2."""
            diam = math.hypot(d.xlim[1] - d.xlim[0], d.ylim[1] - d.ylim[0])
            ctr = np.array([np.mean(d.xlim), np.mean(d.ylim)])
            out = np.empty(shp + (nv, 3))
            for t, ind in enumerate(np.ndindex(*shp)):
                for _ in range(60):
                    th = rng.uniform(0, 2 * math.pi)
                    e = np.array([math.cos(th), math.sin(th)])
                    tt = np.array([-e[1], e[0]])
                    L = diam * math.exp(rng.uniform(math.log(0.5), math.log(50)))
                    if (t + idx) % 3 != 2:
                        L2 = min(L * rng.uniform(1.5, 4.0), 1500.0)
                    else:
                        L2 = -diam * math.exp(rng.uniform(math.log(0.5), math.log(50)))
                    m1 = int(rng.integers(1, nv))

                    def cluster(m, dist):
                        tau = np.sort(rng.uniform(-1, 1, m)) * rng.uniform(0.02, 0.4) * abs(dist)
                        along = dist * (1 + rng.uniform(-0.1, 0.1, m))
                        return ctr - along[:, None] * e + tau[:, None] * tt
                    aff = np.concatenate([cluster(m1, L), cluster(nv - m1, L2)[::-1]])
                    Y = np.insert(aff, 0, 1.0, axis=-1)
                    Y[m1:] *= -1.0
                    Y = Y * rng.uniform(0.5, 2, size=(nv, 1)) * rng.choice([-1.0, 1.0])
                    if rd.convex_cone_orientation(Y) != 0:
                        break
                out[ind] = np.roll(Y, int(rng.integers(nv)), axis=0)
            return rd.apply_columns(np.linalg.inv(A), out)
        run.current_case = {"workload": "projective", "what": what, "chart": ci, "matrix": A}
        if what == "point":
            d.draw_point(PR.Point(chart_points(shape)), **({"color": "green"} if idx % 2 else {}))
        elif what == "segment":
            d.draw_proj_segment(PR.PointPair(chart_points(shape + (2,))),
                                **({"color": "green"} if idx % 2 else {}))
        else:
            nv = int(rng.integers(3, 9))
            # assume_affine=False: polygons inside the chart / crossing its line at
            # infinity / both kinds in one composite and polygons with vertices
            # far outside the view
            variant = ["in-chart", "crossing", "mixed", "far-wedge"][(idx + idx // 24) % 4] \
                if what != "polygon" else "in-chart"
            if variant == "in-chart":
                X = chart_points(shape + (nv,))
            elif variant == "far-wedge":
                nv = 3 + nv % 3
                X = wedge_points(shape, nv)
            else:
                X = crossing_points(shape, nv, variant == "mixed")
            run.current_case["vertices"] = X
            poly = PR.Polygon(X)
            if what == "polygon":
                d.draw_polygon(poly, **({"edgecolor": "green"} if idx % 2 else {}))
            else:
                d.draw_polygon(poly, assume_affine=False, **({"facecolor": "lightblue"} if idx % 2 else {}))
            what = what if variant == "in-chart" else what + "/" + variant
        run.note_class("projective", what, ci, tk, shape, setting)
    finally:
        plt.close("all")


THRESHOLDS = [1000.0, 300.0, "default", 30.0, 5000.0, 150.0, 1000, 12.0]


def wl_thresholds(run, rng, idx):
    """draw_geodesic / get_polygon_arcpath with a radius threshold of the caller's
    own (larger and smaller than the module default, int or float, by keyword or
    by position) on segments whose circle has a radius between the default and
    the passed threshold, above both, or below both: a straight substitute is
    acceptable only above the threshold actually in force (the postconditions
    read it from the call).  Seeded change C19-r6-2: draw_geodesic ignoring its
    radius_threshold argument."""
    H, D, PR, plt = libs()
    model = ["poincare", "halfspace"][idx % 2]
    T = THRESHOLDS[(idx // 2) % len(THRESHOLDS)]
    where = ["between", "between", "above-both", "below-both"][(idx // 16 + idx // 2) % 4]
    tk = "isometry" if (idx // 4) % 2 else "identity"
    n = [1, 3][(idx // 8) % 2]
    default = float(D.RADIUS_THRESHOLD)
    t_eff = default if T == "default" else float(T)
    lo, hi = sorted([default, t_eff])
    d, A = make_drawing(rng, model, tk, plt, D, H, negate=(idx // 3) % 2 == 1)
    try:
        Ks, radii = [], []
        for j in range(n):
            w = where if j == 0 else ["between", "above-both", "below-both"][(j + idx) % 3]
            if w == "between" and hi > lo * 1.05:
                r = math.exp(rng.uniform(math.log(lo * 1.03), math.log(hi / 1.03)))
            elif w == "above-both" or (w == "between" and hi <= lo * 1.05):
                r = hi * rng.uniform(1.2, 3.0)
            else:
                r = max(lo * rng.uniform(0.4, 0.85), 7.5)     # half-plane generator: r > 6
            K = nearly_straight_poly(rng, 3, model, r)
            if K is None:
                return run.monitor("geodesic-artist").skip("generator found no segment")
            Ks.append(K)
            radii.append(r)
        Ks = np.array(Ks)
        P, Q = pull_back(A, Ks[:, 0]), pull_back(A, Ks[:, 1])
        if n == 1 and idx % 3 == 0:
            P, Q = P[0], Q[0]
        run.current_case = {"workload": "thresholds", "model": model, "radius_threshold": T,
                            "radii": radii, "transform": tk, "matrix": A, "P": P, "Q": Q}
        seg = H.Segment(H.Point(P), H.Point(Q))
        if T == "default":
            d.draw_geodesic(seg)
        elif idx % 4 == 1:
            d.draw_geodesic(seg, T)
        else:
            d.draw_geodesic(seg, radius_threshold=T, color="gray")
        if T != "default" and tk == "identity":
            # the polygon path builder with the same threshold (third vertex random)
            d.get_polygon_arcpath(H.Polygon(rh.klein_to_proj(Ks[0])), radius_threshold=T)
        run.note_class("thresholds", model, T, where, tk, n)
    finally:
        plt.close("all")


EDIT_KINDS = ["segment", "polygon", "segment", "point", "horosphere", "geodesic"]
EDIT_SETTERS = {
    "segment": ["set_endpoints-pair", "coords-model", "set_endpoints-array", "coords-klein",
                "setitem", "coords-projective", "set", "coords-poincare"],
    "geodesic": ["set_endpoints-pair", "coords-klein", "set_endpoints-array", "setitem", "set"],
    "polygon": ["coords-model", "coords-klein", "setitem", "coords-projective", "set"],
    "point": ["coords-model", "coords-klein", "setitem", "coords-projective", "set"],
    "horosphere": ["set_center_ref-pair", "coords-projective", "set_center_ref-array", "setitem", "set"],
}


def wl_edit_redraw(run, rng, idx):
    """history: draw an object, move it through a public setter (set_endpoints,
    set_center_ref, coords(model, data) in Klein / Poincare / half-space /
    projective coordinates, item assignment, set), draw it again -- the second
    artist is judged against the object's *current* primary data like the first
    (the postconditions read obj.proj_data at the time of the call).  For
    polygons the edges handed out by get_edges() are drawn as well and judged
    against the edges of the polygon's current vertices.  Seeded change
    C19-r6-3: a setter leaving the derived ideal endpoints at the old position."""
    H, D, PR, plt = libs()
    from . import c19 as base
    model = HMODELS[idx % 3]
    kind = EDIT_KINDS[(idx // 3) % len(EDIT_KINDS)]
    setters = EDIT_SETTERS[kind]
    setter = setters[(idx // 18 + (3 if (idx // 3) % 6 == 2 else 0)) % len(setters)]
    tk = "isometry" if (idx // 9) % 2 else "identity"
    shape = (3,) if idx % 2 else ()
    if kind == "horosphere" and model == "klein":
        model = "poincare"
    if setter == "setitem":
        shape = (3,)
    d, A = make_drawing(rng, model, tk, plt, D, H)
    Ainv = np.linalg.inv(A)

    def klein_points(shp, ideal=False):
        """Klein coordinates in the drawing's frame, away from the half-plane's
        point at infinity before and after the transform."""
        for _ in range(200):
            K = rh.rand_sphere(rng, 2, shp) if ideal else rh.rand_ball(rng, 2, shp, rmax=0.85)
            pre = rc.klein_of_proj(rd.apply_columns(Ainv, rh.klein_to_proj(K)))
            if np.min(rc.inf_distance(K)) > 0.2 and np.min(rc.inf_distance(pre)) > 0.2:
                return K
        return None

    def position():
        """homogeneous data (object's own frame) of a fresh position."""
        if kind == "point":
            K = klein_points(shape)
        elif kind == "polygon":
            polys = [rand_poly_klein(rng, 4, "convex", "halfspace")
                     for _ in range(int(np.prod(shape)) if shape else 1)]
            K = None if any(q is None for q in polys) else np.array(polys).reshape(shape + (4, 2))
            if K is not None and np.min(rc.inf_distance(rc.klein_of_proj(
                    rd.apply_columns(Ainv, rh.klein_to_proj(K))))) < 0.2:
                K = None
        elif kind == "horosphere":
            e, r_ = klein_points(shape, ideal=True), klein_points(shape)
            K = None if e is None or r_ is None else np.stack([e, r_], axis=-2)
        else:
            a, b = klein_points(shape, ideal=(kind == "geodesic")), klein_points(shape, ideal=(kind == "geodesic"))
            if a is None or b is None or np.min(np.linalg.norm(a - b, axis=-1)) < 0.05:
                return None
            K = np.stack([a, b], axis=-2)
        if K is None:
            return None
        X = rd.apply_columns(Ainv, rh.klein_to_proj(K))
        return X

    def draw(obj):
        if kind in ("segment", "geodesic"):
            d.draw_geodesic(obj)
        elif kind == "point":
            d.draw_point(obj)
        elif kind == "horosphere":
            d.draw_horosphere(obj)
        else:
            d.draw_polygon(obj, facecolor="lightgreen")
            X = np.array(obj.proj_data, dtype=float)
            edges = obj.get_edges()
            base.DECLARED[id(edges)] = np.stack([X, np.roll(X, -1, axis=-2)], axis=-2)
            try:
                d.draw_geodesic(edges)
            finally:
                base.DECLARED.pop(id(edges), None)

    try:
        X0, X1 = position(), position()
        if X0 is None or X1 is None:
            return run.monitor("placement").skip("generator found no position")
        case = {"workload": "edit-redraw", "kind": kind, "model": model, "setter": setter,
                "transform": tk, "matrix": A, "first_position": X0, "second_position": X1}
        run.current_case = case
        if kind == "segment":
            obj = H.Segment(H.Point(X0[..., 0, :]), H.Point(X0[..., 1, :]))
        elif kind == "geodesic":
            obj = H.Geodesic(H.IdealPoint(X0[..., 0, :]), H.IdealPoint(X0[..., 1, :]))
        elif kind == "polygon":
            obj = H.Polygon(X0)
        elif kind == "point":
            obj = H.Point(X0)
        else:
            obj = H.Horosphere(H.IdealPoint(X0[..., 0, :]), H.Point(X0[..., 1, :]))
        case["phase"] = "first drawing"
        draw(obj)
        case["phase"] = "drawing after " + setter
        K1 = rc.klein_of_proj(X1)
        if setter == "set_endpoints-pair":
            obj.set_endpoints(H.Point(X1[..., 0, :]), H.Point(X1[..., 1, :]))
        elif setter == "set_endpoints-array":
            obj.set_endpoints(X1)
        elif setter == "set_center_ref-pair":
            obj.set_center_ref(H.IdealPoint(X1[..., 0, :]), H.Point(X1[..., 1, :]))
        elif setter == "set_center_ref-array":
            obj.set_center_ref(X1)
        elif setter == "set":
            obj.set(X1)
        elif setter == "setitem":
            j = int(rng.integers(shape[0]))
            obj[j] = type(obj)(X1[j]) if idx % 4 < 2 else X1[j]
        elif setter == "coords-projective":
            obj.coords("projective", X1)
        elif setter == "coords-klein" or (setter == "coords-model" and model == "klein"):
            obj.coords("klein", K1)
        elif setter == "coords-poincare" or (setter == "coords-model" and model == "poincare"):
            obj.coords("poincare", rh.klein_to_poincare(K1))
        else:
            obj.coords("halfspace", rc.model_of_klein(K1, "halfspace"))
        draw(obj)
        run.note_class("edit-redraw", kind, model, setter, tk, shape)
    finally:
        plt.close("all")


WINDOWS = {
    # (xlim, ylim) classes per model: wider, shifted, asymmetric / one limit only, narrower
    "halfspace": [((-40.0, 40.0), (-1.0, 30.0)), ((10.0, 34.0), (-0.5, 16.0)), ((-60.0, 5.0), None),
                  (None, (-0.2, 3.0)), ((-25.0, 90.0), (-2.0, 60.0)), ((-2.0, 1.5), (-0.05, 2.0))],
    "disc": [((-3.0, 3.0), (-3.0, 3.0)), ((-0.2, 1.05), (-0.6, 0.7)), ((-1.1, 0.1), None),
             (None, (-0.3, 0.3)), ((-5.0, 1.5), (-1.2, 4.0)), ((-0.35, 0.3), (-0.25, 0.4))],
    "projective": [((-40.0, 40.0), (-40.0, 40.0)), ((10.0, 50.0), (-30.0, -5.0)), ((-100.0, 3.0), (-5.0, 5.0)),
                   ((-1.0, 1.0), (-0.5, 0.5)), ((200.0, 260.0), (150.0, 190.0)), ((-5.0, 5.0), (0.0, 80.0))],
}


def wl_windows(run, rng, idx):
    """custom windows (xlim / ylim of the drawing constructors: wider, shifted,
    asymmetric, only one of the two, narrower than the default) with objects
    placed inside the custom window -- for wider / shifted windows outside the
    default one: in the half-plane polygons and segments with exactly vertical
    edges, nearly vertical edges above the radius threshold and ordinary arcs,
    points and horospheres; in the disc models the same object kinds; in the
    projective chart polygons inside it and crossing its line at infinity.
    Everything is judged by the same postconditions, which take the window from
    the Axes limits.  Seeded change C19-r7-1: off-screen bounds of the default
    window kept for a custom window."""
    H, D, PR, plt = libs()
    family = ["halfspace", "halfspace", "disc", "projective"][idx % 4]
    wx, wy = WINDOWS[family][(idx // 4) % 6]
    what = ["polygon-vertical-edge", "segments", "polygon", "points-horospheres"][(idx // 4 + idx // 24) % 4] \
        if family != "projective" else ["polygon", "crossing", "points-segments", "crossing"][(idx // 4 + idx // 24) % 4]
    kwargs = {}
    if wx is not None:
        kwargs["xlim"] = wx
    if wy is not None:
        kwargs["ylim"] = wy
    try:
        if family == "projective":
            d = D.ProjectiveDrawing(**kwargs)
            d._gtmon_matrix = np.eye(3)
            d._gtmon_window = (wx, wy)
            run.current_case = {"workload": "windows", "family": family, "xlim": wx, "ylim": wy, "what": what}
            ctr = np.array([np.mean(wx), np.mean(wy)])
            half = np.array([wx[1] - wx[0], wy[1] - wy[0]]) / 2
            if what == "polygon":
                nv = int(rng.integers(3, 7))
                aff = ctr + rng.uniform(-0.9, 0.9, size=(3, nv, 2)) * half
                d.draw_polygon(PR.Polygon(np.insert(aff, 0, 1.0, axis=-1) * rng.choice([-1.0, 1.0], size=(3, 1, 1))))
            elif what == "points-segments":
                aff = ctr + rng.uniform(-0.9, 0.9, size=(4, 2, 2)) * half
                Y = np.insert(aff, 0, 1.0, axis=-1) * rng.uniform(0.5, 2, size=(4, 2, 1))
                d.draw_point(PR.Point(Y[:, 0]))
                d.draw_proj_segment(PR.PointPair(Y))
            else:
                # triangles crossing the line at infinity: one vertex inside the window,
                # the others 0.3..20 window diameters away on one side (convex cone)
                diam = float(np.hypot(*(2 * half)))
                Y = np.empty((3, 3, 3))
                for j in range(3):
                    th = rng.uniform(0, 2 * math.pi)
                    e = np.array([math.cos(th), math.sin(th)])
                    L = diam * math.exp(rng.uniform(math.log(0.3), math.log(20.0)))
                    a = ctr - L * e + rng.uniform(-0.2, 0.2, 2) * L
                    b = ctr - L * e * rng.uniform(1.5, 3.0) + rng.uniform(-0.2, 0.2, 2) * L
                    c = ctr + rng.uniform(-0.8, 0.8, 2) * half if j == 0 else \
                        ctr - L * e * rng.uniform(1.1, 1.4) + np.array([-e[1], e[0]]) * L * rng.uniform(0.3, 0.6)
                    Y[j] = np.insert(np.stack([a, c, b]), 0, 1.0, axis=-1)
                    Y[j, 2] *= -1.0
                d.draw_polygon(PR.Polygon(Y), assume_affine=False)
            run.note_class("windows", family, (wx, wy), what)
            return
        model = "halfspace" if family == "halfspace" else ["poincare", "klein"][(idx // 4) % 2]
        d = D.HyperbolicDrawing(model="halfplane" if model == "halfspace" and idx % 8 == 1 else model, **kwargs)
        d._gtmon_matrix = np.eye(3)
        (x0, x1), (y0, y1) = d.ax.get_xlim(), d.ax.get_ylim()
        d._gtmon_window = ((x0, x1) if wx is None else wx, (y0, y1) if wy is None else wy)
        run.current_case = {"workload": "windows", "family": family, "model": model, "xlim": wx, "ylim": wy,
                            "what": what}

        def pts(n):
            """n points of the model inside the custom window; in the half-plane
            outside the default window whenever the custom one reaches there."""
            for _ in range(500):
                if model == "halfspace":
                    x = rng.uniform(x0 + 0.05 * (x1 - x0), x1 - 0.05 * (x1 - x0), n)
                    if x1 > 9 or x0 < -9:
                        far = np.abs(x) > 7.5
                        x = np.where(far, x, np.clip(np.sign(x + 1e-9) * rng.uniform(8, 9, n) + x, x0 * 0.95, x1 * 0.95))
                    y = np.exp(rng.uniform(math.log(max(0.15, 0.02 * y1)), math.log(0.9 * y1), n))
                    Z = np.stack([x, y], axis=-1)
                    K = rc.halfspace_to_klein(Z)
                    if np.min(rc.inf_distance(K)) > 0.03:
                        return Z, K
                else:
                    K = rh.rand_ball(rng, 2, (n,), rmax=0.9)
                    Z = rc.model_of_klein(K, model)
                    inside = (Z[:, 0] > x0) & (Z[:, 0] < x1) & (Z[:, 1] > y0) & (Z[:, 1] < y1)
                    if np.all(inside) or _ > 400:
                        return Z, K
            return None, None
        if what in ("polygon-vertical-edge", "polygon"):
            nv = 3 + idx % 3
            Z, K = pts(nv)
            if K is None:
                return run.monitor("polygon-path").skip("generator")
            if what == "polygon-vertical-edge" and model == "halfspace":
                # edge 0 exactly vertical, edge 1 nearly vertical (radius far above the threshold)
                Z[1, 0] = Z[0, 0]
                Z[1, 1] = Z[0, 1] * rng.choice([0.3, 3.0])
                if nv > 3:
                    Z[2, 0] = Z[1, 0] + 1e-4 * rng.choice([-1, 1])
                    Z[2, 1] = Z[1, 1] * 1.7
                K = rc.halfspace_to_klein(Z)
            X = rh.klein_to_proj(K) * rng.uniform(0.5, 2, size=(nv, 1))
            run.current_case["vertices"] = X
            poly = H.Polygon(X)
            d.draw_polygon(poly, facecolor="lightgreen")
            d.draw_geodesic(poly.get_edges())
        elif what == "segments":
            Z, K = pts(6)
            if K is None:
                return run.monitor("geodesic-artist").skip("generator")
            if model == "halfspace":
                Z[1, 0] = Z[0, 0]                     # one exactly vertical segment
                Z[1, 1] = Z[0, 1] * 2.5
                K = rc.halfspace_to_klein(Z)
            X = rh.klein_to_proj(K)
            run.current_case["endpoints"] = X
            d.draw_geodesic(H.Segment(H.Point(X[0::2]), H.Point(X[1::2])))
            d.draw_geodesic(H.Segment(H.Point(X[1]), H.Point(X[0])))
        else:
            Z, K = pts(4)
            if K is None:
                return run.monitor("point-artist").skip("generator")
            X = rh.klein_to_proj(K)
            d.draw_point(H.Point(X))
            if model != "klein":
                e = rh.rand_sphere(rng, 2, (4,))
                e = np.where(rc.inf_distance(e)[..., None] < 0.3, -e, e)
                d.draw_horosphere(H.Horosphere(H.IdealPoint(rh.klein_to_proj(e)), H.Point(X)))
                if model == "halfspace":
                    d.draw_horosphere(H.Horosphere(H.IdealPoint(np.array([1.0, 1.0, 0.0])), H.Point(X[0])))
        run.note_class("windows", family, model, (wx, wy), what)
    finally:
        plt.close("all")


def wl_special_positions(run, rng, idx):
    """exact special positions (generator gen/c11special: small dyadic Klein
    coordinates, lifts scaled by powers of two): a segment / polygon edge whose
    second endpoint is exactly the origin or the foot of the perpendicular from
    the origin, axis-parallel edges ending on an axis, antipodal endpoints,
    chords through the origin, endpoints on two axes; class 8: the pre-image of
    the origin under an exact dyadic boost that is the drawing's transform.
    Intermediate quantities of the library's formulas are then exactly zero
    (seeded change C19-r5-3: sign(b) == 0 in a 'stable' quadratic formula gives
    NaN ideal endpoints, and the drawing code silently draws its straight /
    vertical substitute for a genuine arc).  The attached postconditions judge
    the artists against the true geodesic: a straight piece is accepted only
    above the radius threshold."""
    H, D, PR, plt = libs()
    from ..gen import c11special as SP
    model = HMODELS[idx % 3]
    c = (idx // 3) % SP.N_CLASSES
    shape = [(), (3,), (2, 2)][(idx // 27) % 3] if idx % 2 else ()
    spec = None
    A = np.eye(3)
    kwargs = {}
    if c == 8:
        spec = SP.boost_spec(rng, 2)
        A, _, _ = SP.exact_boost(2, spec["axis"], spec["k"])
        kwargs["transform"] = H.Isometry(A, column_vectors=True)
    try:
        seg = SP.draw(rng, "H.Segment", 2, shape, c, spec)
        pol = SP.draw(rng, "H.Polygon", 2, shape[:1], c, spec, nv=3 + (idx // 2) % 4)
        run.current_case = {"workload": "special-positions", "model": model, "class": c,
                            "segment_class": SP.SEG_CLASSES[c % 8] if c < 8 else "boost-preimage-of-origin",
                            "polygon_class": SP.POLY_CLASSES[c % 5] if c < 8 else "boost-preimage-of-origin",
                            "matrix": A, "P": seg["P"], "Q": seg["Q"], "vertices": pol["X"]}
        d = D.HyperbolicDrawing(model=model, **kwargs)
        d._gtmon_matrix = A
        d.draw_geodesic(H.Segment(H.Point(seg["P"]), H.Point(seg["Q"])))
        d.draw_polygon(H.Polygon(pol["X"]), facecolor="lightgreen")
        # the polygon's edges as segments, and the reversed segment
        d.draw_geodesic(H.Polygon(pol["X"]).get_edges())
        d.draw_geodesic(H.Segment(np.stack([seg["Q"], seg["P"]], axis=-2)))
        run.note_class("special-positions", model, c, shape)
    finally:
        plt.close("all")


def wl_wrong_dimension(run, rng, idx):
    H, D, PR, plt = libs()
    from geometry_tools import GeometryError
    dim = [1, 3][idx % 2]
    method = ["draw_point", "draw_polygon", "draw_geodesic", "draw_horosphere", "draw_horoarc",
              "proj.draw_point", "proj.draw_proj_segment", "proj.draw_polygon"][(idx // 2) % 8]
    model = HMODELS[(idx // 16) % 3]
    if method in ("draw_horosphere", "draw_horoarc") and model == "klein":
        model = "poincare"
    try:
        K = rh.rand_ball(rng, dim, (4,), rmax=0.8)
        X = rh.klein_to_proj(K)
        e = rh.klein_to_proj(rh.rand_sphere(rng, dim, (4,)))
        run.current_case = {"workload": "wrong-dimension", "method": method, "dimension": dim}
        if method.startswith("proj."):
            d = D.ProjectiveDrawing()
            obj = {"proj.draw_point": lambda: PR.Point(X),
                   "proj.draw_proj_segment": lambda: PR.PointPair(X[:2], X[2:]),
                   "proj.draw_polygon": lambda: PR.Polygon(X)}[method]()
            f = getattr(d, method[5:])
        else:
            d = D.HyperbolicDrawing(model=model)
            obj = {"draw_point": lambda: H.Point(X),
                   "draw_polygon": lambda: H.Polygon(X),
                   "draw_geodesic": lambda: H.Segment(H.Point(X[:2]), H.Point(X[2:])),
                   "draw_horosphere": lambda: H.Horosphere(H.IdealPoint(e), H.Point(X)),
                   "draw_horoarc": lambda: H.HorosphereArc(H.IdealPoint(e), H.Point(X), H.Point(X[::-1]))}[method]()
            f = getattr(d, method)
        try:
            f(obj)
        except GeometryError:
            pass
        run.note_class("wrong-dimension", method, dim, model)
    finally:
        plt.close("all")


def wl_docs(run, rng, idx):
    """the module docstring's program and regular polygons of the tutorial kind."""
    H, D, PR, plt = libs()
    n = 3 + idx % 6
    model = ["halfplane", "poincare", "klein"][(idx // 6) % 3]
    try:
        d = D.HyperbolicDrawing(model=model)
        lo, hi = 0.05, (n - 2) * math.pi / n
        angle = math.pi / 6 if idx == 0 else float(rng.uniform(lo, 0.95 * hi))
        poly = H.Polygon.regular_polygon(n, angle=angle)
        run.current_case = {"workload": "docs", "n": n, "angle": angle, "model": model}
        d.draw_plane()
        d.draw_polygon(poly, facecolor="lightgreen")
        d.draw_point(poly.get_vertices())
        d.draw_geodesic(poly.get_edges())
        run.note_class("docs", n, model)
    finally:
        plt.close("all")


WORKLOADS = [
    Workload("polygons", wl_polygons, quick=150, thorough=4800),
    Workload("halfplane-infinite-vertex", wl_halfplane_infinite_vertex, quick=36, thorough=720),
    Workload("geodesics", wl_geodesics, quick=108, thorough=2880),
    Workload("points", wl_points, quick=72, thorough=720),
    Workload("horo", wl_horo, quick=60, thorough=1200),
    Workload("projective", wl_projective, quick=96, thorough=1512),
    Workload("special-positions", wl_special_positions, quick=27, thorough=540),
    Workload("thresholds", wl_thresholds, quick=32, thorough=640),
    Workload("edit-redraw", wl_edit_redraw, quick=54, thorough=1080),
    Workload("windows", wl_windows, quick=28, thorough=960),
    Workload("wrong-dimension", wl_wrong_dimension, quick=48, thorough=192),
    Workload("docs", wl_docs, quick=18, thorough=180),
]
