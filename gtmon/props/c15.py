"""C15 -- reflections, their walls and isometry fixed points correspond.

Monitors (all postconditions on the real functions; they fire on the
library's internal calls as well)
  reflection-across   (P) Subspace.reflection_across (Hyperplane, Geodesic and
                      generic n-point subspaces): involution, form-preserving,
                      det -1, fixes every ideal basis vector, negates the normal.
  from-reflection     (P) Hyperplane.from_reflection: for an argument that the
                      reference recognises as a reflection (rank of I - R) the
                      returned wall has the same normal line, and an ideal basis
                      of n independent lightlike vectors orthogonal to it; an
                      argument that clearly is not a reflection is rejected
                      with GeometryError.
  geodesic-from-reflection (P) Geodesic.from_reflection, dimension 2 likewise;
                      other dimensions are rejected.
  fixed-point         (P) Isometry.fixed_point: fixed, in the closed ball,
                      interior (elliptic) / ideal (parabolic) / the attracting
                      ideal endpoint (loxodromic, max_eigval).
  fixed-point-pair    (P) Isometry.fixed_point_pair and Isometry.axis for
                      loxodromics: both ideal, fixed, distinct, attracting first
                      (attraction decided by power iteration of x -> x M on a
                      reference point with numpy arithmetic only).
  wall-data           (W) Hyperplane built from a normal: stored normal line,
                      ideal basis lightlike / orthogonal / independent.
  roundtrip           (W) wall -> reflection -> wall and reflection -> wall ->
                      reflection return the same object; the reflection equals
                      x -> x - 2<x,v>/<v,v> v; Coxeter generators' walls meet at
                      the Coxeter angles.

Mechanism keys.  Fixed-point failures are keyed by symptom/type/dimension class,
except for the one mechanism of DESIGN section 6 F16 -- numpy.linalg.eig returns
an arbitrary (even non-real) basis of a repeated eigenvalue-1 eigenspace on which
the form is indefinite or degenerate -- which gets one key per (type, dimension
class) whatever the symptom:
  C15/elliptic-fixed-point/dim>=3/repeated-eigenvalue-1      elliptic, n >= 3, dim ker(M-1) >= 2
  C15/elliptic-fixed-point/dim2/reflection/repeated-eigenvalue-1   elliptic, n = 2 (reflections only)
  C15/parabolic-fixed-point/dim>=3/repeated-eigenvalue-1     parabolic, n >= 3, dim ker(M-1) >= 2
The multiplicity is decided by the reference (SVD null space of M - 1), never by
the library.  Elliptic and parabolic isometries of every dimension whose
eigenvalue 1 is simple (classes block-simple-1, simple-eigenvalue-1), dimension 2,
and all loxodromics stay fully judged under symptom keys.
"""
import math
import weakref
import traceback

import numpy as np

from ..run import Workload
from .. import attach
from ..ref import hyp as rh
from ..ref import iso as ri

ID = "C15"
RULE = ("walls: (dimension 2..5, route {normal vector, full data, ideal points, "
        "Coxeter generator}, composite shape, conditioning class of the normal); "
        "fixed points: (dimension, isometry type, construction class {standard "
        "rotation / general elliptic block / loxodromic with and without twist / "
        "parabolic own formula / parabolic sl2 embedded / with simple eigenvalue 1}, "
        "conjugator route, composite shape, option); non-reflections: (dimension, class "
        "of 11 incl. the eigenvalue pattern (-1,1,..,1) with a Jordan block, hidden in a "
        "composite or not); non-trivial = the wall does not pass through the origin "
        "along a coordinate axis resp. the conjugator is not the identity; distinct "
        "= distinct signatures of that kind")
ASSUMPTIONS = [
    "fixed_point_pair / axis are judged for loxodromic isometries only (the "
    "property assigns a pair of fixed points to loxodromics only)",
    "an isometry is given by a matrix in O(n,1) (not by a scalar multiple): "
    "from_reflection of a rescaled reflection matrix is not judged",
    "isometry types are known by construction and cross-checked by the "
    "reference classifier; units the classifier cannot decide with margin are "
    "counted as out of domain",
    "elliptic isometries outside the property's quantifier (general orthogonal "
    "blocks, reflections as arguments of fixed_point) are judged by the "
    "statement's first sentence under their own mechanism keys",
]
_H = "geometry_tools/hyperbolic.py"
ANCHORS = [(_H, q) for q in (
    "Subspace.reflection_across", "Subspace._data_with_dual",
    "Hyperplane._data_with_dual", "Hyperplane.from_reflection",
    "Hyperplane._compute_ideal_basis", "Geodesic.from_reflection",
    "spacelike_to", "Isometry._fixpoint_data", "Isometry.fixed_point",
    "Isometry.fixed_point_pair", "Isometry.axis")]
REQUIRED = [
    (_H, "Subspace.reflection_across", "refdata = (utils.invert(dual_data) @"),
    (_H, "Hyperplane.from_reflection", "return Hyperplane(spacelike.swapaxes(-1,-2))"),
    (_H, "Hyperplane.from_reflection", "raise GeometryError(\"Not a reflection matrix\")"),
    (_H, "Geodesic.from_reflection", "return Geodesic(pt1, pt2)"),
    (_H, "Isometry._fixpoint_data", "sort_indices = np.lexsort(sort_order, axis=-1)"),
    (_H, "Isometry.fixed_point_pair", "return PointPair(fixpoint_data[..., :2, :])"),
    (_H, "Isometry.fixed_point", "return Point(fixpoint_data[..., 0, :])"),
    (_H, "Isometry.axis", "return Geodesic(self.fixed_point_pair())"),
    (_H, "Subspace._data_with_dual", "orthed = utils.indefinite_orthogonalize(self.minkowski,"),
]

F16_KEY = "C15/elliptic-fixed-point/dim>=3/repeated-eigenvalue-1"
# same mechanism in dimension 2: only reflections (orientation-reversing elliptic
# isometries, outside the quantifier's families) have a repeated eigenvalue 1 there
F16_DIM2_KEY = "C15/elliptic-fixed-point/dim2/reflection/repeated-eigenvalue-1"

# ... and for parabolic isometries of H^n, n >= 3, whose eigenvalue 1 has further
# (spacelike) eigenvectors besides the Jordan block: eig returns a complex basis of
# the cluster and in ~0.05% of the conjugates a non-real combination sorts first
PARABOLIC_KEY = "C15/parabolic-fixed-point/dim>=3/repeated-eigenvalue-1"


def fixed_point_key(what, typ, n, mult1):
    if typ == "elliptic" and mult1 >= 2:
        return F16_KEY if n >= 3 else F16_DIM2_KEY
    if typ == "parabolic" and n >= 3 and mult1 >= 2:
        return PARABOLIC_KEY
    return "fixed_point/%s/%s/dim%s" % (what, typ, "2" if n == 2 else ">=3")


TOL = 1e-7            # bulk relative tolerance (pinned-tree residuals <= 1e-12)
IDEAL_TOL = 1e-7      # |<p,p>| / |p|^2 of a reported ideal point
INTERIOR_MARGIN = 1e-6

# expectations registered by the workloads (never stored on the objects)
_expect = weakref.WeakKeyDictionary()


def expect(obj, **info):
    _expect[obj] = info
    return obj


def expected(obj):
    try:
        return _expect.get(obj)
    except TypeError:                 # ndarrays are neither hashable nor weakly referenceable
        return None


def _units(arr, unit_ndims):
    arr = np.asarray(arr)
    return arr.reshape((-1,) + arr.shape[arr.ndim - unit_ndims:])


def _real(arr):
    a = np.asarray(arr)
    if a.dtype == object:
        return None
    if np.iscomplexobj(a):
        if np.max(np.abs(a.imag)) > 0:
            return None
        a = a.real
    return np.asarray(a, dtype=float)


# ---------------------------------------------------------------------------
# walls

def ideal_rows_of(H, hyp):
    """the rows that span the wall, read from the primary data by class."""
    data = _real(H.proj_data)
    if data is None:
        return None, None
    if isinstance(H, hyp.Hyperplane):
        return data[..., 1:, :], data[..., 0, :]
    if isinstance(H, hyp.Geodesic):
        return data[..., :2, :], None
    if type(H) is hyp.Subspace:
        return data, None
    return None, None


def wall_domain(ideal, stored_normal):
    """independent precondition for one unit; returns (nu, cond, reason)."""
    n1 = ideal.shape[-1]
    if ideal.shape[0] != n1 - 1:
        return None, None, "not-a-hyperplane"
    if not np.all(np.isfinite(ideal)):
        return None, None, "non-finite"
    if np.max(np.abs(ri.qrel(ideal))) > 1e-7:
        return None, None, "ideal basis not lightlike"
    nu, ratio = ri.wall_normal(ideal, rtol=1e-6)
    if nu is None:
        return None, None, "ideal basis nearly dependent"
    q = float(ri.qrel(nu))
    if q < 1e-6:
        return None, None, "normal not spacelike with margin"
    if stored_normal is not None:
        if float(ri.proj_dev(stored_normal, nu)) > 1e-6 / (q * ratio):
            return None, None, "stored normal inconsistent with ideal basis"
    return nu, 1.0 / (q * ratio), None


def judge_reflection_unit(mon, R, ideal, nu, cond, sig, case):
    n1 = R.shape[-1]
    tol = TOL * max(1.0, cond)
    s = max(1.0, ri.maxabs(R))
    ok = True
    # input class "wall (numerically) through the origin, given by ideal points": the
    # problem is perfectly conditioned there, but the route Subspace._data_with_dual
    # starts from the Poincare sphere's centre, which is at or near infinity
    cls = sig.split(",")[0]
    through = cls != "Hyperplane" and abs(nu[0]) <= 1e-6 * np.linalg.norm(nu)
    sfx = "/%s/wall-through-origin" % cls if through else ""
    if through:
        sig = sig + ", wall through the origin"

    def key(what):
        return "reflection_across/" + what + sfx

    if not np.all(np.isfinite(R)):
        return mon.fail(key("non-finite"), "reflection matrix has non-finite entries (%s)" % sig,
                        case)
    ok &= mon.judge(ri.maxabs(R @ R - np.eye(n1)) / (s * s), tol, key("not-involution"),
                    "R.R != identity for the reflection across a wall (%s)" % sig, case)
    ok &= mon.judge(float(rh.form_residual(R)), tol, key("form-not-preserved"),
                    "reflection does not preserve the Minkowski form (%s)" % sig, case)
    ok &= mon.judge(abs(float(np.linalg.det(R)) + 1.0) / (s * s), tol * n1,
                    key("det-not-minus-one"),
                    "reflection is not orientation-reversing: det = %r (%s)"
                    % (float(np.linalg.det(R)), sig), case)
    bn = ideal / np.linalg.norm(ideal, axis=-1, keepdims=True)
    ok &= mon.judge(ri.maxabs(bn @ R - bn) / s, tol, key("ideal-basis-not-fixed"),
                    "reflection moves a vector of the wall's ideal basis (%s)" % sig, case)
    ok &= mon.judge(ri.maxabs(nu @ R + nu) / s, tol, key("normal-not-negated"),
                    "reflection does not negate the wall's normal (%s)" % sig, case)
    return ok


def make_hooks(run, hyp, GeometryError):
    m_ref = run.monitor("reflection-across", min_events=200)
    m_from = run.monitor("from-reflection", min_events=100)
    m_rej = run.monitor("non-reflection-rejected", min_events=20)
    m_geo = run.monitor("geodesic-from-reflection", min_events=20)
    m_fp = run.monitor("fixed-point", min_events=100)
    m_pair = run.monitor("fixed-point-pair", min_events=50)
    m_axis = run.monitor("axis", min_events=10)

    # -- reflection_across ---------------------------------------------------
    def hook_reflection(call):
        H = call.args[0]
        ideal_all, normal_all = ideal_rows_of(H, hyp)
        if ideal_all is None:
            return m_ref.skip("unknown subspace class or non-real data")
        n1 = ideal_all.shape[-1]
        case = run.current_case
        if ideal_all.shape[-2] != n1 - 1:
            if call.exc is not None and isinstance(call.exc, GeometryError):
                return m_ref.ok()
            return m_ref.skip("not a hyperplane")
        iu = _units(ideal_all, 2)
        nu_list = [wall_domain(iu[k], None if normal_all is None
                               else _units(normal_all, 1)[k]) for k in range(len(iu))]
        if call.exc is not None:
            if all(nu is not None for nu, c, r in nu_list):
                m_ref.fail("reflection_across/exception:%s" % type(call.exc).__name__,
                           "reflection_across raised %s: %s for an in-domain wall"
                           % (type(call.exc).__name__, str(call.exc)[:160]), case,
                           tb="".join(traceback.format_exception(
                               type(call.exc), call.exc, call.exc.__traceback__)))
            else:
                m_ref.skip("exception on an out-of-domain wall")
            return
        R_all = _real(call.result.proj_data)
        if R_all is None or R_all.shape[-2:] != (n1, n1):
            return m_ref.fail("reflection_across/bad-result-shape",
                              "reflection_across returned data of shape %r"
                              % (None if R_all is None else R_all.shape,), case)
        Ru = _units(R_all, 2)
        if len(Ru) != len(iu):
            return m_ref.fail("reflection_across/bad-result-shape",
                              "%d walls gave %d reflections" % (len(iu), len(Ru)), case)
        cls = type(H).__name__
        for k in range(len(iu)):
            nu, cond, reason = nu_list[k]
            if nu is None:
                m_ref.skip(reason)
                continue
            judge_reflection_unit(m_ref, Ru[k], iu[k], nu, cond,
                                  "%s, dimension %d" % (cls, n1 - 1),
                                  {"workload_case": case, "unit": k, "ideal_basis": iu[k],
                                   "reflection": Ru[k]})

    attach.wrap_attr(run, hyp.Subspace, "reflection_across", hook_reflection, overrides=True)

    # -- from_reflection --------------------------------------------------------
    def reflection_argument(arg):
        """row-convention units of the argument + its kind."""
        if isinstance(arg, np.ndarray):
            a = _real(arg)
            if a is None or a.ndim < 2 or a.shape[-1] != a.shape[-2]:
                return None, "ndarray"
            return np.swapaxes(a, -1, -2), "ndarray"      # documented as acting on the left
        data = getattr(arg, "proj_data", None)
        if data is None:
            return None, "other"
        a = _real(data)
        if a is None or a.ndim < 2 or a.shape[-1] != a.shape[-2]:
            return None, "object"
        return a, "Isometry"

    def judge_wall_result(mon, prefix, wall, Ru, verdicts, case, what):
        data = _real(wall.proj_data)
        n1 = Ru.shape[-1]
        if data is None:
            return mon.fail(prefix + "/bad-result", "%s returned non-real data" % what, case)
        if prefix == "from_reflection":
            if data.shape[-2:] != (n1, n1):
                return mon.fail(prefix + "/bad-result-shape",
                                "%s returned data of shape %r" % (what, data.shape), case)
            Wu = _units(data, 2)
        else:
            if data.shape[-2:] != (2, n1):
                return mon.fail(prefix + "/bad-result-shape",
                                "%s returned data of shape %r" % (what, data.shape), case)
            Wu = _units(data, 2)
        if len(Wu) != len(Ru):
            return mon.fail(prefix + "/bad-result-shape",
                            "%d reflections gave %d walls" % (len(Ru), len(Wu)), case)
        for k in range(len(Ru)):
            nu = verdicts[k][1]
            q = float(ri.qrel(nu))
            tol = TOL / q
            c = {"workload_case": case, "unit": k, "reflection": Ru[k], "wall_data": Wu[k]}
            if prefix == "from_reflection":
                normal, ideal = Wu[k][0], Wu[k][1:]
                mon.judge(float(ri.proj_dev(normal, nu)), tol, prefix + "/normal-differs",
                          "%s: normal line of the returned wall differs from the "
                          "(-1)-direction of the reflection" % what, c)
            else:
                ideal = Wu[k]
            if not np.all(np.isfinite(ideal)):
                mon.fail(prefix + "/ideal-basis-non-finite", "%s: non-finite ideal basis" % what, c)
                continue
            mon.judge(float(np.max(np.abs(ri.qrel(ideal)))), IDEAL_TOL / q,
                      prefix + "/ideal-basis-not-lightlike",
                      "%s: a vector of the returned ideal basis is not lightlike" % what, c)
            bn = ideal / np.linalg.norm(ideal, axis=-1, keepdims=True)
            mon.judge(float(np.max(np.abs(rh.mink(bn, nu[None, :])))), tol,
                      prefix + "/ideal-basis-not-in-wall",
                      "%s: a vector of the returned ideal basis is not orthogonal to "
                      "the reflection's normal" % what, c)
            sv = np.linalg.svd(bn, compute_uv=False)
            # (rank deficiency at working precision only: how well conditioned the
            # returned basis is, is not promised)
            mon.require(sv[-1] / sv[0] > 1e-10, prefix + "/ideal-basis-degenerate",
                        "%s: returned ideal basis is linearly dependent (sigma ratio %.2e)"
                        % (what, sv[-1] / sv[0]), c)

    def hook_from_reflection(call):
        arg = call.args[0] if call.args else call.kwargs.get("reflection")
        Rrow, kind = reflection_argument(arg)
        case = run.current_case
        if Rrow is None:
            return m_from.skip("argument is not a real square matrix")
        Ru = _units(Rrow, 2)
        verdicts = [ri.reflection_test(R) for R in Ru]
        vs = [v[0] for v in verdicts]
        raised = call.exc is not None
        rejected = raised and isinstance(call.exc, GeometryError)
        if any(v is False for v in vs):
            why = [v[2] for v in verdicts if v[0] is False][0]
            info = expected(arg) or {}
            cls = info.get("class", "unclassified")
            if rejected:
                return m_rej.ok()
            if raised:
                return m_rej.fail("from_reflection/non-reflection/exception:%s"
                                  % type(call.exc).__name__,
                                  "a non-reflection (%s) made from_reflection raise %s "
                                  "instead of GeometryError" % (why, type(call.exc).__name__),
                                  {"workload_case": case, "matrix": Ru})
            return m_rej.fail("from_reflection/non-reflection-accepted/%s" % cls,
                              "from_reflection accepted a matrix that is not a reflection (%s)"
                              % why, {"workload_case": case, "matrix": Ru})
        if not all(v is True for v in vs):
            return m_from.skip("argument neither clearly a reflection nor clearly not")
        if raised:
            return m_from.fail(
                "from_reflection/%s/%s-argument"
                % ("reflection-rejected" if rejected else
                   "exception:" + type(call.exc).__name__, kind),
                "from_reflection raised %s: %s for a reflection given as %s"
                % (type(call.exc).__name__, str(call.exc)[:160], kind),
                {"workload_case": case, "matrix": Ru},
                tb="".join(traceback.format_exception(type(call.exc), call.exc,
                                                      call.exc.__traceback__)))
        judge_wall_result(m_from, "from_reflection", call.result, Ru, verdicts, case,
                          "Hyperplane.from_reflection")

    attach.wrap_attr(run, hyp.Hyperplane, "from_reflection", hook_from_reflection)

    def hook_geodesic_from_reflection(call):
        arg = call.args[0] if call.args else call.kwargs.get("reflection")
        Rrow, kind = reflection_argument(arg)
        case = run.current_case
        if Rrow is None or kind != "Isometry":
            return m_geo.skip("argument is not an isometry object")
        n = Rrow.shape[-1] - 1
        raised = call.exc is not None
        rejected = raised and isinstance(call.exc, GeometryError)
        if n != 2:
            if rejected:
                return m_geo.ok()
            if raised:
                return m_geo.skip("non-GeometryError exception in dimension != 2")
            return m_geo.fail("geodesic_from_reflection/dimension-not-2-accepted",
                              "Geodesic.from_reflection accepted dimension %d" % n, case)
        Ru = _units(Rrow, 2)
        verdicts = [ri.reflection_test(R) for R in Ru]
        vs = [v[0] for v in verdicts]
        if any(v is False for v in vs):
            if rejected:
                return m_geo.ok()
            if raised:
                return m_geo.skip("non-GeometryError exception (judged at Hyperplane.from_reflection)")
            return m_geo.fail("geodesic_from_reflection/non-reflection-accepted",
                              "Geodesic.from_reflection accepted a non-reflection", case)
        if not all(v is True for v in vs):
            return m_geo.skip("argument neither clearly a reflection nor clearly not")
        if raised:
            return m_geo.fail("geodesic_from_reflection/%s"
                              % ("reflection-rejected" if rejected else
                                 "exception:" + type(call.exc).__name__),
                              "Geodesic.from_reflection raised %s: %s for a reflection"
                              % (type(call.exc).__name__, str(call.exc)[:160]), case)
        judge_wall_result(m_geo, "geodesic_from_reflection", call.result, Ru, verdicts, case,
                          "Geodesic.from_reflection")

    attach.wrap_attr(run, hyp.Geodesic, "from_reflection", hook_geodesic_from_reflection)

    # -- fixed points ---------------------------------------------------------------
    def unit_type(iso_obj, k, M):
        """(type, mult1, rho, class label) for unit k, or (None, reason)."""
        info = expected(iso_obj)
        c = ri.classify(M)
        if info is not None:
            want = info.get("type")
            if c["type"] is not None and c["type"] != want:
                return None, "reference classifier disagrees with the construction"
            if c["mult1"] is None:
                return None, c["note"]
            return (want, c["mult1"], c["rho"], info.get("class", "?")), None
        if c["type"] is None:
            return None, c["note"] or "undecided"
        return (c["type"], c["mult1"], c["rho"], "ambient"), None

    def fp_key(what, typ, n, mult1):
        # the mechanism of F16 (eig returns an arbitrary basis of a repeated
        # eigenvalue-1 eigenspace on which the form is indefinite) gets one key per
        # dimension class, whatever the symptom; everything else is keyed by symptom
        return fixed_point_key(what, typ, n, mult1)

    def scale_tol(typ, M, rho):
        s = max(1.0, ri.maxabs(M))
        if typ == "parabolic":
            # eigenvalue 1 sits in a Jordan block of size 3: eigenvectors of the
            # rounded matrix are only determined to ~ (eps |M|)^(1/3)
            return 50.0 * (ri.EPS * s) ** (1.0 / 3.0)
        if typ == "loxodromic":
            gap = max(rho - 1.0, 1e-3)
            return TOL * s * s / min(gap, 1.0)
        return TOL * s * s

    def judge_point(mon, fn, p, M, typ, n, mult1, rho, cls, case, role=None, opts=""):
        """one reported fixed point p of the unit M.  role: None / 'attracting'
        / 'repelling' / 'either'."""
        tol = scale_tol(typ, M, rho)
        sig = "%s, dimension %d, %s%s" % (typ, n, cls, opts)
        if p is None or not np.all(np.isfinite(p)) or not np.any(p != 0):
            return mon.fail(fp_key("degenerate", typ, n, mult1),
                            "%s returned a zero or non-finite vector (%s)" % (fn, sig), case)
        dev = float(ri.proj_dev(p @ M, p))
        q = float(ri.qrel(p))
        ok = True
        if not (dev <= tol):
            ok = False
            mon.fail(fp_key("not-fixed", typ, n, mult1),
                     "%s: reported point is not fixed by the isometry: projective deviation "
                     "of its image %.3e > %.1e (%s; <p,p>/|p|^2 = %.3e)" % (fn, dev, tol, sig, q),
                     case, residual=dev)
        if typ == "elliptic":
            if not (q < -INTERIOR_MARGIN):
                ok = False
                mon.fail(fp_key("exterior" if q > IDEAL_TOL else "not-interior", typ, n, mult1),
                         "%s: reported fixed point of an elliptic isometry is not an interior "
                         "point: <p,p>/|p|^2 = %.3e (%s)" % (fn, q, sig), case, residual=q)
        else:
            itol = max(IDEAL_TOL, tol) if typ == "parabolic" else IDEAL_TOL * max(1.0, ri.maxabs(M)) ** 2
            if not (abs(q) <= itol):
                ok = False
                mon.fail(fp_key("exterior" if q > 0 else "not-ideal", typ, n, mult1),
                         "%s: reported fixed point of a %s isometry is not ideal: "
                         "<p,p>/|p|^2 = %.3e (%s)" % (fn, typ, q, sig), case, residual=q)
        if ok and typ == "loxodromic" and role in ("attracting", "repelling", "either"):
            x0 = ri.reference_point(n)
            att, steps, ch = ri.iterate_to_attractor(M, x0, rho)
            rep, steps2, ch2 = ri.iterate_to_attractor(ri.minv(M), x0, rho)
            if ch > 1e-9 or ch2 > 1e-9 or float(ri.proj_dev(att, rep)) < 1e-4:
                mon.skip("power iteration did not separate the endpoints")
                return ok
            d_att = float(ri.proj_dev(p, att))
            d_rep = float(ri.proj_dev(p, rep))
            t2 = max(tol, 1e-8)
            if role == "either":
                good = min(d_att, d_rep) <= t2
                word = "neither axis endpoint"
            elif role == "attracting":
                good = d_att <= t2
                word = "not the attracting endpoint (distance to attracting %.2e, to repelling %.2e)" % (d_att, d_rep)
            else:
                good = d_rep <= t2
                word = "not the repelling endpoint (distance to repelling %.2e, to attracting %.2e)" % (d_rep, d_att)
            if not good:
                ok = False
                mon.fail("fixed_point/wrong-endpoint:%s/loxodromic/dim%s"
                         % (role, "2" if n == 2 else ">=3"),
                         "%s: reported point is %s; iteration of x -> x.M from the reference "
                         "point converges elsewhere (%s)" % (fn, word, sig), case,
                         residual=min(d_att, d_rep))
        if ok:
            mon.ok(dev)
        return ok

    def fixed_hook(fn, mon, npoints):
        def hook(call):
            T = call.args[0]
            b = call.bound()
            flag = b.get("max_eigval", b.get("sort_eigvals", True))
            M_all = _real(T.proj_data)
            case = run.current_case
            if M_all is None:
                return mon.skip("non-real isometry data")
            Mu = _units(M_all, 2)
            n = Mu.shape[-1] - 1
            types = [unit_type(T, k, Mu[k]) for k in range(len(Mu))]
            if call.exc is not None:
                if any(t[0] is not None for t in types):
                    t0 = [t[0] for t in types if t[0] is not None][0]
                    if npoints == 2 and t0[0] != "loxodromic":
                        return mon.skip("pair of a non-loxodromic isometry")
                    mon.fail("%s/exception:%s/%s=%r" % (fn, type(call.exc).__name__,
                                                       "max_eigval" if fn == "fixed_point" else "sort_eigvals",
                                                       bool(flag)),
                             "Isometry.%s(%s) raised %s: %s for a %s isometry in dimension %d"
                             % (fn, "" if flag else "False", type(call.exc).__name__,
                                str(call.exc)[:160], t0[0], n),
                             {"workload_case": case, "matrix": Mu[0]},
                             tb="".join(traceback.format_exception(
                                 type(call.exc), call.exc, call.exc.__traceback__)))
                else:
                    mon.skip("exception on an unclassified isometry")
                return
            data = _real(call.result.proj_data)
            if data is None:
                return mon.fail("%s/non-real-result" % fn, "%s returned complex data" % fn, case)
            if fn == "axis":
                data = data[..., :2, :]
            Pu = _units(data, npoints and (2 if npoints == 2 else 1))
            if len(Pu) != len(Mu):
                return mon.fail("%s/bad-result-shape" % fn,
                                "%d isometries gave %d results" % (len(Mu), len(Pu)), case)
            for k in range(len(Mu)):
                t, reason = types[k]
                if t is None:
                    mon.skip(reason)
                    continue
                typ, mult1, rho, cls = t
                c = {"workload_case": case, "unit": k, "matrix": Mu[k], "reported": Pu[k],
                     "type": typ, "eigenvalue_1_multiplicity": mult1}
                opts = "" if flag else (", max_eigval=False" if npoints == 1 else ", sort_eigvals=False")
                if npoints == 1:
                    role = None
                    if typ == "loxodromic":
                        role = "attracting" if flag else "either"
                    judge_point(mon, "Isometry." + fn, Pu[k], Mu[k], typ, n, mult1, rho, cls, c,
                                role=role, opts=opts)
                else:
                    if typ != "loxodromic":
                        mon.skip("pair of a non-loxodromic isometry")
                        continue
                    roles = ("attracting", "repelling") if flag else ("either", "either")
                    ok0 = judge_point(mon, "Isometry.%s[0]" % fn, Pu[k][0], Mu[k], typ, n, mult1,
                                      rho, cls, c, role=roles[0], opts=opts)
                    ok1 = judge_point(mon, "Isometry.%s[1]" % fn, Pu[k][1], Mu[k], typ, n, mult1,
                                      rho, cls, c, role=roles[1], opts=opts)
                    if ok0 and ok1:
                        mon.require(float(ri.proj_dev(Pu[k][0], Pu[k][1])) > 1e-6,
                                    "%s/endpoints-coincide/loxodromic" % fn,
                                    "Isometry.%s returned the same endpoint twice" % fn, c)
        return hook

    attach.wrap_attr(run, hyp.Isometry, "fixed_point", fixed_hook("fixed_point", m_fp, 1))
    attach.wrap_attr(run, hyp.Isometry, "fixed_point_pair",
                     fixed_hook("fixed_point_pair", m_pair, 2))
    attach.wrap_attr(run, hyp.Isometry, "axis", fixed_hook("axis", m_axis, 2))


def setup(run):
    from geometry_tools import hyperbolic as hyp
    from geometry_tools.projective import GeometryError
    make_hooks(run, hyp, GeometryError)
    run.monitor("wall-data", min_events=100)
    run.monitor("roundtrip", min_events=100)


# ---------------------------------------------------------------------------
# generators

COMPOSITE_SHAPES = [(), (3,), (2, 2), (1,), (4,)]
# (v0, v1, v2, ...) with v1^2 = v0^2 + v2^2 + ...
PYTHAGOREAN = [(0, 1, 1), (0, 1, -1), (3, 5, 4), (4, 5, -3), (0, 5, 3, 4), (5, 13, 12),
               (0, 13, 5, 12), (1, 3, 2, 2), (2, 3, 1, 2), (0, 3, 1, 2, 2), (0, 2, 1, 1, 1, 1)]


def rand_normals(rng, n, shape, cls):
    """spacelike vectors (shape + (n+1,)), by conditioning class."""
    u = rh.rand_sphere(rng, n, shape)
    if cls == "through-origin":
        a = np.zeros(tuple(shape) + (1,))
    elif cls == "bulk":
        a = rng.uniform(-0.9, 0.9, size=tuple(shape) + (1,))
    elif cls == "far":                      # wall near the boundary: nearly lightlike normal
        a = rng.choice([-1.0, 1.0], size=tuple(shape) + (1,)) * \
            (1 - 10 ** rng.uniform(-3, -1.5, size=tuple(shape) + (1,)))
    elif cls == "axis":
        u = np.zeros(tuple(shape) + (n,))
        u[..., int(rng.integers(0, n))] = 1.0
        a = np.zeros(tuple(shape) + (1,))
    elif cls == "lightlike-kernel":
        # v1^2 = v0^2 + v2^2 + ...: the Householder basis LAPACK returns for the
        # Minkowski complement of v then contains a lightlike vector (hostile for
        # an indefinite Gram-Schmidt).  Exact integer instances and rounded ones.
        out = np.empty(tuple(shape) + (n + 1,))
        for ind in (np.ndindex(*shape) if shape else [()]):
            if rng.random() < 0.5:
                trip = PYTHAGOREAN[int(rng.integers(0, len(PYTHAGOREAN)))]
                v = np.zeros(n + 1)
                v[0], v[1] = trip[0], trip[1]
                rest = list(trip[2:])[:n - 1]
                if len(rest) < len(trip) - 2:       # does not fit this dimension
                    v[0], v[1], rest = 0.0, 1.0, [1.0]
                pos = rng.choice(np.arange(2, n + 1), size=len(rest), replace=False)
                v[pos] = rest
                v *= float(2.0 ** int(rng.integers(-2, 3))) * float(rng.choice([-1.0, 1.0]))
            else:
                w = rh.rand_sphere(rng, n - 1) * float(rng.uniform(0.5, 2.0))
                a0 = float(rng.uniform(-1.5, 1.5)) * float(np.linalg.norm(w))
                v = np.concatenate([[a0, float(rng.choice([-1.0, 1.0])) *
                                     math.sqrt(a0 * a0 + float(w @ w))], w])
            out[ind] = v
        return out
    elif cls == "integer":
        # integer-dtype spacelike normals (not normalised, integer storage:
        # in-place normalisation cannot happen) -- seeded change C15-2
        out = np.empty(tuple(shape) + (n + 1,), dtype=np.int64)
        for ind in (np.ndindex(*shape) if shape else [()]):
            while True:
                w = rng.integers(-4, 5, size=n + 1)
                q = -w[0] * w[0] + int(np.sum(w[1:] * w[1:]))
                if q >= max(2, 0.15 * int(np.sum(w * w))):
                    break
            out[ind] = w
        return out
    else:
        raise ValueError(cls)
    v = np.concatenate([a, u], axis=-1)
    scale = np.exp(rng.uniform(np.log(0.1), np.log(10), size=tuple(shape) + (1,))) * \
        rng.choice([-1.0, 1.0], size=tuple(shape) + (1,))
    return v * scale


def rand_ideal_points(rng, n, k):
    """k generic ideal points (rows, homogeneous) with a well-conditioned span."""
    while True:
        u = rh.rand_sphere(rng, n, (k,))
        P = np.concatenate([np.ones((k, 1)), u], axis=-1)
        s = np.linalg.svd(P, compute_uv=False)
        nu, ratio = (ri.wall_normal(P, 1e-3) if k == n else (1, 1))
        if s[-1] / s[0] > 0.05 and nu is not None and (k != n or ri.qrel(nu) > 0.02):
            return P


def make_conjugator(rng, n, route, shape=()):
    """an Isometry object (possibly composite) with basepoint radius <= 0.9."""
    from geometry_tools.hyperbolic import Isometry, Point
    if route == "origin_to":
        return Point(rh.rand_ball(rng, n, shape, rmax=0.9), model="klein").origin_to()
    if route == "origin_to-unoriented":
        return Point(rh.rand_ball(rng, n, shape, rmax=0.9), model="klein").origin_to(
            force_oriented=False)
    if route == "reference":
        return Isometry(rh.rand_isometry(rng, n, tmax=1.47, shape=shape), column_vectors=True)
    if route == "identity":
        return Isometry(np.broadcast_to(np.eye(n + 1), tuple(shape) + (n + 1, n + 1)).copy())
    raise ValueError(route)


CONJ_ROUTES = ["origin_to", "reference", "origin_to-unoriented", "origin_to", "reference"]


def conjugate(C, S, how):
    """C S C^-1 through the library ('library') or with numpy ('numpy')."""
    from geometry_tools.hyperbolic import Isometry
    if how == "library":
        return C @ S @ C.inv()
    c = np.asarray(C.proj_data, dtype=float)
    s = np.asarray(S.proj_data, dtype=float)
    return Isometry(ri.minv(c) @ s @ c)


# ---------------------------------------------------------------------------
# workloads: walls

WALL_CLASSES = ["bulk", "lightlike-kernel", "through-origin", "far", "axis", "integer"]


def check_wall_data(run, H, v, sig, case):
    """W: Hyperplane built from normal(s) v.  Returns False when the wall is
    broken (the rest of the case would only show consequences)."""
    mon = run.monitor("wall-data")
    hostile = "lightlike-kernel" in sig
    good = True

    def key(what):
        # one key for the whole mechanism in the hostile class, whatever the symptom
        return "wall-data/broken-wall/lightlike-kernel" if hostile else "wall-data/" + what
    data = np.asarray(H.proj_data, dtype=float)
    n1 = v.shape[-1]
    vu = _units(v, 1)
    Hu = _units(data, 2)
    if Hu.shape[1:] != (n1, n1) or len(Hu) != len(vu):
        mon.fail(key("bad-shape"), "Hyperplane(%r normals) has data shape %r"
                 % (v.shape, data.shape), case)
        return False
    for k in range(len(vu)):
        q = float(ri.qrel(vu[k]))
        tol = TOL / q
        good &= mon.judge(float(ri.proj_dev(Hu[k][0], vu[k])), tol,
                          key("normal-line-differs"),
                          "Hyperplane(v): stored normal is not on the line of v (%s)" % (sig,), case)
        ideal = Hu[k][1:]
        if not np.all(np.isfinite(ideal)) or np.any(np.linalg.norm(ideal, axis=-1) == 0):
            good = mon.fail(key("ideal-basis-non-finite"),
                            "Hyperplane(v): non-finite or zero ideal basis vector (%s)" % (sig,), case)
            continue
        good &= mon.judge(float(np.max(np.abs(ri.qrel(ideal)))), IDEAL_TOL / q,
                          key("ideal-basis-not-lightlike"),
                          "Hyperplane(v): ideal basis vector not lightlike (%s)" % (sig,), case)
        bn = ideal / np.linalg.norm(ideal, axis=-1, keepdims=True)
        vn = vu[k] / np.linalg.norm(vu[k])
        good &= mon.judge(float(np.max(np.abs(rh.mink(bn, vn[None, :])))), tol,
                          key("ideal-basis-not-orthogonal"),
                          "Hyperplane(v): ideal basis vector not orthogonal to v (%s)" % (sig,), case)
        sv = np.linalg.svd(bn, compute_uv=False)
        good &= mon.require(sv[-1] / sv[0] > 1e-10, key("ideal-basis-degenerate"),
                            "Hyperplane(v): ideal basis linearly dependent (%s)" % (sig,), case)
    return bool(good)


def wl_walls(run, rng, idx):
    from geometry_tools.hyperbolic import Hyperplane, Geodesic, Isometry
    rt = run.monitor("roundtrip")
    dims = [2, 3, 4, 2, 3, 4, 5] if run.tier == "thorough" else [2, 3, 4]
    n = dims[idx % len(dims)]
    shape = COMPOSITE_SHAPES[(idx // len(dims)) % len(COMPOSITE_SHAPES)]
    cls = WALL_CLASSES[(idx // (len(dims) * len(COMPOSITE_SHAPES))) % len(WALL_CLASSES)]
    route = ["normal", "normal", "full-data", "object"][idx % 4]
    v = rand_normals(rng, n, shape, cls)
    arg = v[..., None, :].copy() if shape else v.copy()      # composites are (k,1,n+1)
    case = {"dimension": n, "shape": list(shape), "normal_class": cls, "route": route,
            "normals": v}
    run.current_case = case
    sig = ("walls", n, shape, cls, route)
    run.note_class(*sig)
    H = Hyperplane(arg)
    if not check_wall_data(run, H, v, sig, case):
        return
    if route == "full-data":
        H = Hyperplane(np.array(H.proj_data, dtype=float))
    elif route == "object":
        H = Hyperplane(H)
    run.note_class(*sig)
    R = H.reflection_across()                                # P: reflection-across
    H2 = Hyperplane.from_reflection(R)                       # P: from-reflection
    q = ri.qrel(v)
    tolu = TOL / np.min(q)
    rt.judge(float(np.max(ri.proj_dev(np.asarray(H2.proj_data)[..., 0, :], v))), tolu,
             "roundtrip/wall->reflection->wall/normal-differs",
             "Hyperplane.from_reflection(H.reflection_across()) has another normal line %r"
             % (sig,), case)
    R2 = H2.reflection_across()
    a, b = np.asarray(R2.proj_data, dtype=float), np.asarray(R.proj_data, dtype=float)
    rt.judge(ri.maxabs(a - b) / max(1.0, ri.maxabs(b)), tolu,
             "roundtrip/reflection->wall->reflection/matrix-differs",
             "reflection across from_reflection(R) differs from R %r" % (sig,), case)
    # the reflection equals the reference reflection in v
    Ru = _units(b, 2)
    vu = _units(v, 1)
    err = max(ri.maxabs(Ru[k] - ri.reflection_matrix_row(vu[k])) / max(1.0, ri.maxabs(Ru[k]))
              for k in range(len(vu)))
    rt.judge(err, tolu, "roundtrip/reflection-differs-from-reference",
             "H.reflection_across() is not x -> x - 2<x,v>/<v,v> v %r" % (sig,), case)
    if n == 2:
        G = Geodesic.from_reflection(R)                      # P: geodesic-from-reflection
        Rg = G.reflection_across()                           # Subspace._data_with_dual route
        rg = np.asarray(Rg.proj_data, dtype=float)
        if np.all(np.isfinite(rg)):                          # (non-finite: reported by the postcondition)
            rt.judge(ri.maxabs(rg - b) / max(1.0, ri.maxabs(b)),
                     tolu * 10, "roundtrip/geodesic-from-reflection/reflection-differs",
                     "Geodesic.from_reflection(R).reflection_across() differs from R %r" % (sig,), case)
    else:
        try:
            Geodesic.from_reflection(R)                      # must be rejected (hook judges)
        except Exception:
            pass
    if not shape and idx % 3 == 0:
        # documented alternative argument: the matrix itself (acting on the left)
        run.note_class("walls", n, "ndarray-argument")
        try:
            H3 = Hyperplane.from_reflection(np.asarray(R.proj_data, dtype=float).T.copy())
            rt.judge(float(ri.proj_dev(np.asarray(H3.proj_data)[0], v)), tolu,
                     "roundtrip/ndarray-argument/normal-differs",
                     "from_reflection(matrix) has another normal line", case)
        except Exception:
            pass                                             # reported by the postcondition
    if idx < 2:
        run.sample({"workload": "walls", "dimension": n, "shape": list(shape),
                    "class": cls, "normals": v})


def wl_ideal_walls(run, rng, idx):
    """walls given by ideal points: Geodesic (dimension 2) and generic
    Subspace with n ideal points (Subspace._data_with_dual route)."""
    from geometry_tools.hyperbolic import Geodesic, Subspace, Hyperplane, IdealPoint
    rt = run.monitor("roundtrip")
    n = [2, 3, 4, 2, 3][idx % 5]
    k = 1 + (idx // 5) % 3 if idx % 2 else 0
    case = {"dimension": n, "units": k}
    units = [rand_ideal_points(rng, n, n) for _ in range(max(k, 1))]
    P = np.array(units) if k else units[0]
    case["ideal_points"] = P
    run.current_case = case
    sig = ("ideal-walls", n, k)
    run.note_class(*sig)
    if n == 2:
        form = idx % 3
        if form == 0:
            S = Geodesic(P.copy())
        elif form == 1:
            S = Geodesic(P[..., 0, :].copy(), P[..., 1, :].copy())
        else:
            S = Geodesic(IdealPoint(P[..., 0, :].copy()), IdealPoint(P[..., 1, :].copy()))
    else:
        S = Subspace(P.copy())
    R = S.reflection_across()                                # P
    H = Hyperplane.from_reflection(R)                        # P
    Pu = _units(P, 2)
    Hu = _units(np.asarray(H.proj_data, dtype=float), 2)
    for j in range(len(Pu)):
        nu, ratio = ri.wall_normal(Pu[j], 1e-6)
        rt.judge(float(ri.proj_dev(Hu[j][0], nu)), TOL / (ri.qrel(nu) * ratio),
                 "roundtrip/ideal-points->reflection->wall/normal-differs",
                 "wall recovered from the reflection across span(ideal points) has "
                 "another normal %r" % (sig,), case)
    if n >= 3:
        # fewer than n ideal points do not span a wall: documented GeometryError
        k2 = int(rng.integers(2, n))
        Q = rand_ideal_points(rng, n, k2)
        run.note_class("ideal-walls-too-small", n, k2)
        small = Geodesic(Q.copy()) if k2 == 2 else Subspace(Q.copy())
        try:
            small.reflection_across()                         # P expects the rejection
            run.monitor("reflection-across").fail(
                "reflection_across/non-hyperplane-accepted",
                "reflection_across of %d ideal points in dimension %d did not raise" % (k2, n),
                {"ideal_points": Q})
        except Exception as e:
            if type(e).__name__ != "GeometryError":
                raise
    if idx < 1:
        run.sample({"workload": "ideal-walls", "dimension": n, "ideal_points": P})


_COX = None


def cox_list():
    global _COX
    if _COX is None:
        _COX = ri.hyperbolic_coxeter_matrices()
    return _COX


def wl_coxeter(run, rng, idx):
    """reflections taken from Coxeter hyperbolic representations."""
    from geometry_tools import coxeter
    from geometry_tools.hyperbolic import Hyperplane, Geodesic
    rt = run.monitor("roundtrip")
    name, m = cox_list()[idx % len(cox_list())]
    n = len(m) - 1
    if n < 2:
        return
    B = ri.cosine_form(m)
    case = {"coxeter": name, "matrix": m}
    run.current_case = case
    G = coxeter.CoxeterGroup(matrix=m.copy())
    rep = G.hyperbolic_rep()
    gens = "abcde"[:len(m)]
    run.note_class("coxeter", name)
    mats = []
    for g in gens:
        R = rep[g]
        Rr = np.asarray(R.proj_data, dtype=float)
        mats.append(Rr)
        H = Hyperplane.from_reflection(R)                    # P (reflection by reference test)
        R2 = H.reflection_across()                           # P
        s = max(1.0, ri.maxabs(Rr))
        rt.judge(ri.maxabs(np.asarray(R2.proj_data, dtype=float) - Rr) / s, 1e-6 * s,
                 "roundtrip/coxeter-generator/reflection-differs",
                 "reflection across from_reflection(rep[%r]) differs from rep[%r] (%s)"
                 % (g, g, name), case)
        if n == 2:
            Geodesic.from_reflection(R)                      # P
    # walls of the generators meet at the Coxeter angles: <nu_i,nu_j> = -cos(pi/m_ij)
    nus = []
    for Rr in mats:
        v, nu, why = ri.reflection_test(Rr)
        if not v:
            return
        nus.append(nu / math.sqrt(rh.mink_sq(nu)))
    nus = np.array(nus)
    gram = np.abs(ri.form_gram(nus))
    s = max(1.0, max(ri.maxabs(x) for x in mats))
    rt.judge(ri.maxabs(gram - np.abs(B)), 1e-6 * s * s,
             "roundtrip/coxeter-generator/wall-angles",
             "walls of the generators of %s do not meet at the Coxeter angles" % name, case)
    # composite: all generators at once, and a conjugate reflection w g w^-1
    allg = rep.isometries(list(gens))
    Hall = Hyperplane.from_reflection(allg)                  # P, composite
    Hall.reflection_across()                                 # P, composite
    L = int(rng.integers(1, 6))
    w = "".join(gens[int(rng.integers(0, len(gens)))] for _ in range(L))
    word = w + gens[int(rng.integers(0, len(gens)))] + w[::-1]
    Rw = rep[word]
    if ri.maxabs(Rw.proj_data) < 1e3:
        run.note_class("coxeter-conjugate", name, L)
        Hyperplane.from_reflection(Rw)                       # P
        # a rotation / translation word of even length must be rejected
    even = rep[gens[0] + gens[1]]
    expect(even, **{"class": "coxeter-even-word"})
    try:
        Hyperplane.from_reflection(even)
    except Exception:
        pass
    if idx < 1:
        run.sample({"workload": "coxeter", "group": name, "generator_a": mats[0]})


# ---------------------------------------------------------------------------
# workloads: non-reflections

def non_reflection(rng, n, cls):
    """column-convention matrix that preserves the form and is not a reflection."""
    if cls == "rotation":
        A = ri.rotation(n, float(rng.uniform(0.1, math.pi)))
    elif cls == "rotation-pi":
        A = ri.rotation(n, math.pi)
    elif cls == "identity":
        A = np.eye(n + 1)
    elif cls == "loxodromic":
        A = ri.loxodromic(n, float(rng.uniform(1.2, 10)))
    elif cls == "parabolic":
        A = ri.parabolic(n, float(rng.uniform(0.3, 2)))
    elif cls == "glide-reflection":
        A = ri.loxodromic(n, float(rng.uniform(1.2, 5)))
        A[:, 2] *= -1.0
    elif cls == "two-reflections":
        A = np.eye(n + 1)
        A[1, 1] = A[2, 2] = -1.0
    elif cls == "point-reflection":
        A = np.eye(n + 1)
        A[0, 0] = -1.0
    elif cls == "minus-identity":
        A = -np.eye(n + 1)
    elif cls == "parabolic-times-reflection":
        A = ri.parabolic(n, float(rng.choice([1.0, 2.0, 0.5, float(rng.uniform(0.3, 2))])))
        A[:, 3] *= -1.0
    elif cls == "minus-reflection":
        A = -np.eye(n + 1)
        A[1, 1] = 1.0
    else:
        raise ValueError(cls)
    return A


NONREF = ["rotation", "rotation-pi", "identity", "loxodromic", "parabolic", "glide-reflection",
          "two-reflections", "point-reflection", "minus-identity", "minus-reflection",
          "parabolic-times-reflection"]


def wl_non_reflections(run, rng, idx):
    from geometry_tools.hyperbolic import Hyperplane, Geodesic, Isometry
    from geometry_tools.projective import GeometryError
    n = [2, 3, 4][idx % 3]
    cls = NONREF[(idx // 3) % len(NONREF)]
    if cls == "parabolic-times-reflection" and n < 3:
        cls = "glide-reflection"
    composite = (idx // (3 * len(NONREF))) % 3
    if cls == "parabolic-times-reflection":
        # eigenvalues (-1, 1, ..., 1) although not an involution; the rounded spectrum
        # falls inside a 1e-8 window in a few percent of the conjugates only
        n = 4 if idx % 2 else n
        for rep in range(11):
            A = non_reflection(rng, n, cls)
            Cc = rh.rand_isometry(rng, n, tmax=1.0)
            T = Isometry(Cc @ A @ ri.minv(Cc), column_vectors=True)
            expect(T, **{"class": cls})
            run.current_case = {"dimension": n, "class": cls, "instance": rep,
                                "matrix_columns": Cc @ A @ ri.minv(Cc)}
            try:
                Hyperplane.from_reflection(T)                # P decides
            except Exception:
                pass
    A = non_reflection(rng, n, cls)
    Cc = rh.rand_isometry(rng, n, tmax=1.0)
    M = Cc @ A @ ri.minv(Cc)
    case = {"dimension": n, "class": cls, "composite": composite, "matrix_columns": M}
    run.current_case = case
    run.note_class("non-reflection", n, cls, composite)
    if composite == 0:
        T = Isometry(M, column_vectors=True)
    else:
        # hidden among genuine reflections: the whole call must be rejected
        refl = [ri.reflection_matrix_row(rand_normals(rng, n, (), "bulk")).T for _ in range(2)]
        stack = refl[:1] + [M] + refl[1:] if composite == 1 else refl + [M]
        T = Isometry(np.array(stack), column_vectors=True)
    expect(T, **{"class": cls})
    for f in ([Hyperplane.from_reflection, Geodesic.from_reflection] if n == 2
              else [Hyperplane.from_reflection]):
        try:
            f(T)                                             # P decides
        except GeometryError:
            pass
        except Exception:
            pass                                             # reported by the postcondition
    if idx < 1:
        run.sample({"workload": "non-reflections", "class": cls, "matrix_columns": M})


# ---------------------------------------------------------------------------
# workloads: fixed points

def standard_elliptic(rng, n, cls):
    """(Isometry S, description) -- an elliptic isometry fixing the origin."""
    from geometry_tools.hyperbolic import Isometry
    if cls == "standard-rotation":
        ang = float(rng.choice([rng.uniform(0.05, 2 * math.pi - 0.05),
                                rng.uniform(-2 * math.pi + 0.05, -0.05), 1.1, 2.5]))
        return Isometry.standard_rotation(ang, dimension=n), {"angle": ang}
    if cls == "standard-rotation-pi":
        return Isometry.standard_rotation(math.pi, dimension=n), {"angle": math.pi}
    if cls == "standard-rotation-small":
        ang = float(10 ** rng.uniform(-3, -1.3))
        return Isometry.standard_rotation(ang, dimension=n), {"angle": ang}
    if cls == "rotation-other-plane":
        i, j = sorted(rng.choice(np.arange(1, n + 1), size=2, replace=False))
        ang = float(rng.uniform(0.1, 3.0))
        return Isometry(ri.rotation(n, ang, int(i), int(j)), column_vectors=True), \
            {"angle": ang, "plane": [int(i), int(j)]}
    if cls == "block-simple-1":
        # orthogonal block without eigenvalue 1: the fixed point is isolated
        if n == 2:
            B = ri.rotation(1, float(rng.uniform(0.2, 6.0)), 0, 1)
        elif n == 3:
            Q = rh.rand_orth(rng, 3)
            B = Q @ np.diag([1.0, 1.0, -1.0]) @ Q.T
            R2 = np.eye(3)
            a = float(rng.uniform(0.3, 2.8))
            R2[:2, :2] = [[math.cos(a), -math.sin(a)], [math.sin(a), math.cos(a)]]
            B = Q @ R2 @ np.diag([1.0, 1.0, -1.0]) @ Q.T
        else:
            Q = rh.rand_orth(rng, n)
            B = np.eye(n)
            for b in range(n // 2):
                a = float(rng.uniform(0.3, 2.8))
                B[2 * b:2 * b + 2, 2 * b:2 * b + 2] = [[math.cos(a), -math.sin(a)],
                                                     [math.sin(a), math.cos(a)]]
            if n % 2:
                B[-1, -1] = -1.0
            B = Q @ B @ Q.T
        return Isometry.elliptic(n, B), {"block": B}
    if cls == "block-special-orthogonal":
        B = ri.rand_orth_det(rng, n, 1.0)
        return Isometry.elliptic(n, B), {"block": B}
    if cls == "reflection-as-elliptic":
        v = rh.rand_sphere(rng, n)
        B = np.eye(n) - 2 * np.outer(v, v)
        return Isometry.elliptic(n, B), {"block": B}
    raise ValueError(cls)


ELLIPTIC_CLASSES = ["standard-rotation", "standard-rotation", "standard-rotation-pi",
                    "standard-rotation-small", "rotation-other-plane", "block-simple-1",
                    "block-special-orthogonal", "standard-rotation", "block-simple-1"]


def wl_elliptic(run, rng, idx):
    n = [2, 3, 4, 2][idx % 4]
    cls = ELLIPTIC_CLASSES[(idx // 4) % len(ELLIPTIC_CLASSES)]
    if cls == "rotation-other-plane" and n == 2:
        cls = "standard-rotation"
    shape = [(), (5,), (), (2, 2)][(idx // 3) % 4]
    route = CONJ_ROUTES[idx % len(CONJ_ROUTES)]
    how = "library" if idx % 3 else "numpy"
    S, desc = standard_elliptic(rng, n, cls)
    C = make_conjugator(rng, n, route, shape)
    case = dict(desc, dimension=n, elliptic_class=cls, conjugator=route, shape=list(shape),
                composed_by=how, conjugator_matrix=np.asarray(C.proj_data))
    run.current_case = case
    g = conjugate(C, S, how)
    expect(g, type="elliptic", **{"class": cls})
    run.note_class("elliptic", n, cls, route, shape, how)
    g.fixed_point()                                          # P
    if idx < 2:
        run.sample({"workload": "elliptic", "dimension": n, "class": cls,
                    "matrix": np.asarray(g.proj_data)})


def wl_dim2_reflection_fixed_point(run, rng, idx):
    """fixed_point of a reflection of H^2 (elliptic in the trichotomy; outside
    the quantifier's families, judged by the statement)."""
    n = 2
    route = CONJ_ROUTES[idx % len(CONJ_ROUTES)]
    S, desc = standard_elliptic(rng, n, "reflection-as-elliptic")
    C = make_conjugator(rng, n, route, ())
    case = dict(desc, dimension=n, elliptic_class="reflection-as-elliptic", conjugator=route)
    run.current_case = case
    g = conjugate(C, S, "library")
    expect(g, type="elliptic", **{"class": "reflection-as-elliptic"})
    run.note_class("elliptic", n, "reflection-as-elliptic", route)
    g.fixed_point()


def standard_loxodromic(rng, n, cls):
    from geometry_tools.hyperbolic import Isometry
    lam = float(np.exp(rng.uniform(math.log(1.05), math.log(20))))
    if cls == "standard":
        return Isometry.standard_loxodromic(n, lam), {"parameter": lam}
    if cls == "standard-inverse-parameter":
        return Isometry.standard_loxodromic(n, 1.0 / lam), {"parameter": 1.0 / lam}
    if cls == "standard-short":
        lam = float(rng.uniform(1.05, 1.2))
        return Isometry.standard_loxodromic(n, lam), {"parameter": lam}
    if cls == "standard-long":
        lam = float(rng.uniform(10, 20))
        return Isometry.standard_loxodromic(n, lam), {"parameter": lam}
    if cls == "sl2-diagonal":
        a = math.sqrt(lam)
        from geometry_tools.hyperbolic import sl2_iso
        T = sl2_iso(np.array([[a, 0.0], [0.0, 1.0 / a]]))
        return Isometry(ri.embed(np.asarray(T.proj_data, dtype=float), n)), {"parameter": lam}
    if cls == "twisted":
        # boost along axis 1 times a rotation about that axis (dimension >= 3)
        ang = float(rng.uniform(0.2, 3.0))
        A = ri.loxodromic(n, lam) @ ri.rotation(n, ang, 2, 3)
        return Isometry(A, column_vectors=True), {"parameter": lam, "twist": ang}
    if cls == "glide":
        A = ri.loxodromic(n, lam)
        A[:, 2] *= -1.0
        return Isometry(A, column_vectors=True), {"parameter": lam, "glide": True}
    raise ValueError(cls)


LOX_CLASSES = ["standard", "standard-inverse-parameter", "standard-short", "standard-long",
               "sl2-diagonal", "twisted", "glide", "standard"]


def wl_loxodromic(run, rng, idx):
    n = [2, 3, 4][idx % 3]
    cls = LOX_CLASSES[(idx // 3) % len(LOX_CLASSES)]
    if cls == "twisted" and n < 3:
        cls = "standard"
    shape = [(), (4,), (), (2, 2), ()][(idx // 2) % 5]
    route = CONJ_ROUTES[idx % len(CONJ_ROUTES)]
    how = "library" if idx % 4 else "numpy"
    S, desc = standard_loxodromic(rng, n, cls)
    C = make_conjugator(rng, n, route, shape)
    case = dict(desc, dimension=n, loxodromic_class=cls, conjugator=route, shape=list(shape),
                composed_by=how, conjugator_matrix=np.asarray(C.proj_data))
    run.current_case = case
    g = conjugate(C, S, how)
    expect(g, type="loxodromic", **{"class": cls})
    run.note_class("loxodromic", n, cls, route, shape, how)
    g.fixed_point_pair()                                     # P
    g.fixed_point()                                          # P
    g.axis()                                                 # P (and the pair inside)
    if idx < 2:
        run.sample({"workload": "loxodromic", "dimension": n, "class": cls,
                    "matrix": np.asarray(g.proj_data)})


def wl_parabolic(run, rng, idx):
    from geometry_tools.hyperbolic import Isometry, sl2_iso
    n = [2, 3, 4][idx % 3]
    cls = ["sl2-upper", "sl2-lower", "own-formula", "sl2-upper-negative", "own-formula",
           "simple-eigenvalue-1"][(idx // 3) % 6]
    t = float(rng.choice([-1.0, 1.0]) * np.exp(rng.uniform(math.log(0.2), math.log(3.0))))
    if cls == "simple-eigenvalue-1" and n == 2:
        cls = "own-formula"
    if cls == "simple-eigenvalue-1":
        # no further eigenvector for the eigenvalue 1: orientation-reversing parabolic
        # (dimension 3) / parabolic times a rotation of the complement (dimension 4)
        A = ri.parabolic(n, t, axis=2)
        if n == 3:
            A[:, 3] *= -1.0
        else:
            A = A @ ri.rotation(n, float(rng.uniform(0.3, 2.8)), 3, 4)
        S = Isometry(A, column_vectors=True)
    elif cls.startswith("sl2"):
        m2 = np.array([[1.0, t], [0.0, 1.0]]) if cls != "sl2-lower" else np.array([[1.0, 0.0], [t, 1.0]])
        if cls == "sl2-upper-negative":
            m2 = -m2                                       # same Moebius map
        T = sl2_iso(m2)
        S = Isometry(ri.embed(np.asarray(T.proj_data, dtype=float), n))
    else:
        S = Isometry(ri.parabolic(n, t, axis=int(rng.integers(2, n + 1))), column_vectors=True)
    shape = [(), (4,), ()][(idx // 2) % 3]
    route = CONJ_ROUTES[idx % len(CONJ_ROUTES)]
    how = "library" if idx % 3 else "numpy"
    C = make_conjugator(rng, n, route, shape)
    case = {"dimension": n, "parabolic_class": cls, "t": t, "conjugator": route,
            "shape": list(shape), "composed_by": how,
            "conjugator_matrix": np.asarray(C.proj_data)}
    run.current_case = case
    g = conjugate(C, S, how)
    expect(g, type="parabolic", **{"class": cls})
    run.note_class("parabolic", n, cls, route, shape, how)
    p = g.fixed_point()                                      # P
    # the unique fixed ideal point is also the row space of (M - I)^2
    mon = run.monitor("fixed-point")
    Mu = _units(np.asarray(g.proj_data, dtype=float), 2)
    Pu = _units(np.asarray(p.proj_data, dtype=float), 1)
    for k in range(len(Mu)):
        l, ratio = ri.parabolic_fixed_direction(Mu[k])
        if ratio > 1e-6:
            mon.skip("(M-I)^2 not of rank one numerically")
            continue
        s = max(1.0, ri.maxabs(Mu[k]))
        mon.judge(float(ri.proj_dev(Pu[k], l)), 50.0 * (ri.EPS * s) ** (1.0 / 3.0) * s,
                  fixed_point_key("differs-from-reference-direction", "parabolic", n,
                                  ri.classify(Mu[k])["mult1"] or 0),
                  "fixed point of a parabolic isometry differs from the row space of (M-I)^2",
                  case)
    if idx < 1:
        run.sample({"workload": "parabolic", "dimension": n, "class": cls,
                    "matrix": np.asarray(g.proj_data)})


def wl_options(run, rng, idx):
    """the documented options max_eigval=False / sort_eigvals=False: no
    ordering promised, every reported point must still be a fixed point of
    the right kind."""
    from geometry_tools.hyperbolic import Isometry
    n = [2, 3, 4][idx % 3]
    typ = ["loxodromic", "elliptic", "parabolic", "loxodromic"][(idx // 3) % 4]
    C = make_conjugator(rng, n, CONJ_ROUTES[idx % len(CONJ_ROUTES)], [(), (3,)][(idx // 12) % 2])
    if typ == "loxodromic":
        S, desc = standard_loxodromic(rng, n, "standard")
    elif typ == "elliptic":
        S, desc = standard_elliptic(rng, n, "standard-rotation" if n == 2 else "block-simple-1")
    else:
        t = float(rng.uniform(0.3, 2.0))
        S, desc = Isometry(ri.parabolic(n, t), column_vectors=True), {"t": t}
    case = dict(desc, dimension=n, type=typ, options="False")
    run.current_case = case
    g = conjugate(C, S, "library")
    expect(g, type=typ, **{"class": "options/" + typ})
    run.note_class("options", n, typ)
    for call in ((lambda: g.fixed_point(max_eigval=False)),
                 (lambda: g.fixed_point_pair(sort_eigvals=False))):
        try:
            call()                                           # P decides (also on exceptions)
        except Exception:
            pass


def wl_repo_tests(run, rng, idx):
    """the repository's own hyperbolic tests (they call fixed_point /
    fixed_point_pair) with the postconditions attached; types come from the
    reference classifier here."""
    from .. import pytest_run
    names = ("fixed-point", "fixed-point-pair", "reflection-across")
    before = {k: run.monitor(k).evals for k in names}
    run.current_case = {"repo_tests": "testing/test_hyperbolic.py"}
    out = pytest_run.run_repo_tests(run, ["test_hyperbolic.py"])
    run.extra["repo_tests"] = dict(
        {"ran": len(out), "passed": sum(1 for v in out.values() if v == "passed")},
        **{"evaluations:" + k: run.monitor(k).evals - before[k] for k in names})
    if out:
        run.note_class("repo-tests", "test_hyperbolic.py")


def wl_wall_histories(run, rng, idx):
    """query, transform (or assign an item), query again: the reflection asked
    of g @ H after H.reflection_across(), and of a composite after one of its
    walls was replaced, is the reflection across the *current* wall (seeded
    change C15-r2-3: a reflection cached on the object and carried along by
    apply's shallow copy / not invalidated by item assignment).  Judged by the
    reflection-across postcondition and against the reference reflection."""
    from geometry_tools.hyperbolic import Hyperplane, Isometry
    rt = run.monitor("roundtrip")
    n = 2 + idx % 3
    which = ["transform", "setitem"][(idx // 3) % 2]
    if which == "transform":
        shape = [(), (3,)][(idx // 6) % 2]
        v = rand_normals(rng, n, shape, "bulk")
        arg = v[..., None, :].copy() if shape else v.copy()
        A = rh.rand_isometry(rng, n, tmax=1.0)
        case = {"dimension": n, "shape": list(shape), "history": "reflect, transform, reflect",
                "normals": v, "isometry": A}
        run.current_case = case
        H = Hyperplane(arg)
        H.reflection_across()
        g = Isometry(A, column_vectors=True)
        H2 = g @ H
        R2 = H2.reflection_across()
        # normal of g(H): n' with <n', A x> = <n, x>  =>  n' = n J A^-1 J (row convention)
        Jm = rh.J(n + 1)
        v2 = v @ Jm @ np.linalg.inv(A) @ Jm
    else:
        k = 3
        v = rand_normals(rng, n, (k,), "bulk")
        vnew = rand_normals(rng, n, (), "bulk")
        case = {"dimension": n, "history": "reflect, set item, reflect", "normals": v,
                "new_normal": vnew}
        run.current_case = case
        H2 = Hyperplane(v[:, None, :].copy())
        H2.reflection_across()
        H2[1] = Hyperplane(vnew.copy())
        R2 = H2.reflection_across()
        v2 = v.copy()
        v2[1] = vnew
    b = np.asarray(R2.proj_data, dtype=float)
    Ru = _units(b, 2)
    vu = _units(v2, 1)
    q = ri.qrel(vu)
    err = max(ri.maxabs(Ru[j] - ri.reflection_matrix_row(vu[j])) / max(1.0, ri.maxabs(Ru[j]))
              for j in range(len(vu)))
    rt.judge(err, 10 * TOL / float(np.min(q)), "roundtrip/reflection-after-%s-differs-from-reference" % which,
             "reflection_across() asked again after a %s is not the reflection in the current wall"
             % which, case)
    run.note_class("wall-history", n, which)


WORKLOADS = [
    Workload("wall-histories", wl_wall_histories, quick=60, thorough=1800),
    Workload("walls", wl_walls, quick=450, thorough=20000),
    Workload("ideal-walls", wl_ideal_walls, quick=135, thorough=6000),
    Workload("coxeter-reflections", wl_coxeter, quick=96, thorough=2880),
    Workload("non-reflections", wl_non_reflections, quick=198, thorough=9000),
    Workload("elliptic", wl_elliptic, quick=648, thorough=30000),
    Workload("dim2-reflection-fixed-point", wl_dim2_reflection_fixed_point, quick=80, thorough=4000),
    Workload("loxodromic", wl_loxodromic, quick=432, thorough=20000),
    Workload("parabolic", wl_parabolic, quick=270, thorough=12000),
    Workload("options", wl_options, quick=72, thorough=2400),
    Workload("repo-tests-under-monitors", wl_repo_tests, quick=1, thorough=1),
]
