"""C06 -- automaton-driven enumeration returns exactly the accepted words and
their images.

Monitors (P = postcondition at the real method, I = invariant, W = workload relation)
  accepted-set  (P) Representation.automaton_accepted: the returned word multiset
                (or the number of matrices) == the accepting paths of the
                automaton *snapshot* (plain DFS over the set model), for the
                call's start/end mode, bound and maxlen.
  images        (P) every returned matrix == product of the representation's
                generator matrices along the accepting path of its word
                (position by position with the word list; as a multiset without).
  memo          (I) caller-supplied `precomputed` dict after each call: every new
                (length, state) entry == the reference value for that key under
                the call's options; entries judged earlier are unchanged.
                Judged only while the dict is reused with one option tuple.
  free-reduced  (P) freely_reduced_elements, free_words_of_length,
                free_words_less_than against filtered full products.
  agreement     (W) with_words=False vs True; automaton_accepted vs
                fsa.enumerate_words / enumerate_fixed_length_paths(with_states)
                filtered by end state; freely_reduced_elements vs free_words_*.
  images-exact  (W) exact-integer representations: returned matrices == exact
                int64 products with exact inverses.
  history       (W) automata / free automata with a *history* of in-place edits
                (add_edges, delete_vertices, rename, recurrent, ...): the result
                == the accepting paths and images of the automaton the
                (construction + edit script) denotes, kept as a plain set model
                by the workload (not read back from the library's adjacency
                views); every call's result count == the transfer-matrix path
                count of that model; a newly requested free automaton is the free
                automaton whatever happened to earlier ones.
Oracles: gtmon.ref.fsa_model / fsa_lang / fsa_hist (numpy only).
"""
import collections
import re
import traceback

import numpy as np

from ..run import Workload
from .. import attach, core
from ..ref import fsa_lang as fl
from ..ref import fsa_hist as fh
from ..ref.fsa_model import Model
from ..gen import fsa_build, fsa_edit, fsa_wordlabels

ID = "C06"
RULE = ("cases = (automaton, representation class, option tuple (maxlen, with_words, "
        "start/end mode + state, edge_words), length 0..L, memo none/shared): dense = "
        "all 4,096 deterministic automata with 3 states over 2 labels x the full "
        "option grid x lengths 0..4 with one shared memo per option tuple (thorough; "
        "quick samples them); random automata <=8 states/<=4 labels incl. source "
        "start vertices, self-loops, parallel edges, unreachable states, through 7 "
        "construction routes; every built-in .wa/.geowa file and free automata; "
        "multi-letter labels from automaton_multiple(2,3) (edge_words=True) and "
        "multi-character generator names (edge_words=False, and names that are also "
        "words); histories: automata from every route / built-in files / free automata "
        "edited in place by 1-3 documented calls (new label between connected states, "
        "list-of-labels form, new pair, new vertex, delete_vertex(ices), in-place rename, "
        "in-place recurrent, redundant re-adds) before they are enumerated; free "
        "automata requested from the library, edited in place, then freely reduced "
        "enumeration on the same / a new / a different-class representation with the "
        "same generator list (both call orders); "
        "representation objects whose generators were assigned again (once / twice / through "
        "the inverse name / inverse name first / all / keyword / on a copy), before and after "
        "a first enumeration, judged against the workload's record of the current generators; "
        "representations whose inverse-letter matrices are not the inverses (compute_inverse="
        "False monoid representations on both classes, copies, astype('int64') truncations, "
        "non-multiplicative compose()) x labels / accepted words with adjacent x X pairs "
        "(automaton_multiple labels, hand-written words incl. nested pairs, one-letter edges); "
        "representations: non-commuting non-symmetric float GL(2)/GL(3), exact "
        "unimodular int64, ProjectiveRepresentation.  non-trivial = the automaton has "
        ">=1 edge and the expected set is non-empty; distinct = distinct (route, rep "
        "class, #states, #labels, features, mode, maxlen, with_words, edge_words, memo, "
        "length) signatures")
ASSUMPTIONS = [
    "integer-typed generator matrices: an image whose exact entries reach 2^62 in modulus is not "
    "judged (NumPy int64 products wrap around silently; overflow is not a property of the enumeration)",
    "exactly one start vertex; coherent views (C09); the queried state is a vertex",
    "the image of a word is the product of the representation's own generator "
    "matrices (rep.generators read as data) in reading order; inverse generators "
    "are whatever the representation stores (their correctness is C05), except in "
    "the exact-integer class where the exact inverse is used",
    "memo reuse is judged across calls with the same (automaton, representation, "
    "maxlen, with_words, start/end mode, edge_words); cross-option reuse is not "
    "promised by the docstring and is counted, not judged",
    "free_words_less_than(n) must list every freely reduced word shorter than n "
    "once and nothing longer than n; whether length n itself is included "
    "(docstring 'inclusive' vs the name and the code) is recorded, not judged",
    "free_words_* are judged for single-character generator names (they look at "
    "the last *character* of a word); other names are recorded only",
    "rep[name] = X (and set_generator(name, X, compute_inverse=True)) makes X the image of "
    "name and the inverse of X the image of the inverse name from then on, whatever the "
    "object held before; in the reassigned workload the reference inverse is numpy's",
    "an automaton with an edit history denotes the set model obtained by applying "
    "the same documented edits to the model of its construction; scripts keep it "
    "deterministic.  The history monitor judges only while the library's own label "
    "view (graph_dict, what FSA.enumerate_words reads) equals that model; a "
    "different label view is C09/C10's business and is skipped here",
]
_R = "geometry_tools/representation.py"
_F = "geometry_tools/automata/fsa.py"
ANCHORS = [(_R, "Representation." + q) for q in (
    "automaton_accepted", "_automaton_accepted", "freely_reduced_elements",
    "free_words_of_length", "free_words_less_than", "_word_value")] + [
    (_F, "free_automaton"), (_F, "FSA.enumerate_fixed_length_paths"),
    (_F, "FSA.enumerate_words"), (_F, "FSA.add_edges"), (_F, "FSA.delete_vertex"),
    (_F, "FSA._build_in_dict")]
REQUIRED = [
    (_R, "Representation._automaton_accepted", "return precomputed[(length, state)]"),
    (_R, "Representation._automaton_accepted", "adj_states = automaton.out_dict[state]"),
    (_R, "Representation._automaton_accepted", "adj_states = automaton.in_dict[state]"),
    (_R, "Representation._automaton_accepted", "words = [label + word for word in words]"),
    (_R, "Representation._automaton_accepted", "words = [word + label for word in words]"),
    (_R, "Representation._automaton_accepted", "edge_elt = self._word_value(label)"),
    (_R, "Representation._automaton_accepted", "edge_elt = self.generators[label]"),
    (_R, "Representation._automaton_accepted", "matrices = edge_elt @ matrices"),
    (_R, "Representation._automaton_accepted", "matrices = matrices @ edge_elt"),
    (_R, "Representation._automaton_accepted", "accepted_words = additional_words + accepted_words"),
    (_R, "Representation._automaton_accepted", "return (empty_arr, [])"),
    (_R, "Representation._automaton_accepted", "precomputed[(length, state)] = accepted"),
    (_R, "Representation.automaton_accepted", "state = end_state"),
    (_R, "Representation.automaton_accepted", "state = start_state"),
    (_R, "Representation.free_words_of_length", "yield word + generator"),
]

PATH_CAP = 6000
TOL = 1e-8
_ctx = {"route": "ambient", "rep": "ambient"}


def nviol(run):
    return sum(e["count"] for e in run.violations.values())


def label_gens(label, edge_words, parse_simple):
    """generator names multiplied for one edge label, or None when the label
    cannot be read (outside the documented word syntax)."""
    if not isinstance(label, str):
        return None
    if not edge_words:
        return [label]
    if parse_simple:
        return list(label)
    toks = re.split("[()*]", label)
    if any(t == "" for t in toks):
        return None         # empty tokens: the multi-character word syntax of C05/F6
    return toks


def raw_matrices(res):
    """ndarray (n, d, d) carried by a result (plain array, or a wrapped
    composite Transformation built with column_vectors=True)."""
    if isinstance(res, np.ndarray):
        return res
    m = getattr(res, "matrix", None)
    if m is not None:
        return np.asarray(m).swapaxes(-1, -2)
    return None


class Judge:
    """reference for one (model, representation data, options)."""

    def __init__(self, M, gens, dim, edge_words, parse_simple):
        self.M = M
        self.gens = gens
        self.dim = dim
        self.edge_words = edge_words
        self.parse_simple = parse_simple
        self.frozen = {k: np.array(v, copy=True) for k, v in gens.items()}
        self.cache = {}
        self.pcache = {}
        self.complex = any(np.iscomplexobj(g) for g in gens.values())
        # integer-typed generators: products beyond the int64 range wrap around
        # silently in NumPy; such images are outside the domain (numerical
        # overflow, not a property of the enumeration) and are not judged
        self.integer = any(np.asarray(g).dtype.kind in "iu" for g in gens.values())

    def overflow_rows(self, ref):
        """boolean mask over the leading axis: |entries| of the exact image at or
        beyond 2^62 for integer generator data."""
        ref = np.asarray(ref)
        if not self.integer or ref.size == 0:
            return np.zeros(ref.shape[0], dtype=bool)
        return np.max(np.abs(ref), axis=(1, 2)) >= 2.0 ** 62

    def readable(self):
        for (_v, lab) in self.M.delta:
            g = label_gens(lab, self.edge_words, self.parse_simple)
            if g is None or any(x not in self.gens for x in g):
                return False
        return True

    def label_matrix(self, lab):
        m = self.cache.get(lab)
        if m is None:
            m = fl.product(self.gens, label_gens(lab, self.edge_words, self.parse_simple),
                           self.dim, dtype=complex if self.complex else float)
            self.cache[lab] = m
        return m

    def path_matrix(self, word):
        """product of the label matrices along the path, in reading order
        (memoised by prefix)."""
        P = self.pcache.get(word)
        if P is None:
            if not word:
                P = np.eye(self.dim, dtype=complex if self.complex else float)
            else:
                P = self.path_matrix(word[:-1]) @ self.label_matrix(word[-1])
            self.pcache[word] = P
        return P

    def expected(self, mode, state, length, maxlen):
        s = self.M.starts[0] if (mode == "end" or state is None) else state
        end = state if mode == "end" else None
        return fl.language(self.M, length, s, exact=not maxlen, end=end)

    def problems(self, value, with_words, exp):
        """-> None or (what-key, text, residual).  `exp`: Counter of (word, end)."""
        paths = [w for (w, _e), n in exp.items() for _ in range(n)]
        if with_words:
            if not (isinstance(value, tuple) and len(value) == 2):
                return ("accepted-set", "malformed-result", "result is not (matrices, words)", None)
            mats, words = value
        else:
            mats, words = value, None
        arr = raw_matrices(mats)
        if arr is None or arr.ndim != 3 or arr.shape[1:] != (self.dim, self.dim):
            return ("accepted-set", "malformed-result",
                    "matrix array has shape %r, expected (n, %d, %d)"
                    % (getattr(arr, "shape", None), self.dim, self.dim), None)
        if arr.dtype == object:
            try:
                arr = arr.astype(complex if self.complex else float)
            except Exception:
                return ("images", "object-dtype", "matrix array has dtype object", None)
        if words is not None:
            words = list(words)
            if len(words) != arr.shape[0]:
                return ("accepted-set", "words-matrices-length",
                        "%d words but %d matrices" % (len(words), arr.shape[0]), None)
            got = collections.Counter(words)
            want = collections.Counter(fl.concat(w) for w in paths)
            if got != want:
                missing, extra = want - got, got - want
                if missing:
                    return ("accepted-set", "missing-word",
                            "accepted words %r (of %d) are not returned"
                            % (sorted(missing)[:6], sum(want.values())), None)
                ghost = [w for w in extra if w not in want]
                if ghost:
                    return ("accepted-set", "word-without-accepting-path",
                            "returned words %r have no accepting path" % sorted(ghost)[:6], None)
                return ("accepted-set", "multiplicity",
                        "words %r are returned more often than they have accepting paths"
                        % sorted(extra)[:6], None)
            # images, position by position (paths with the same spelling are
            # matched as a multiset)
            by_spelling = collections.defaultdict(list)
            for w in paths:
                by_spelling[fl.concat(w)].append(w)
            if not words:
                return 0.0
            if all(len(v) == 1 for v in by_spelling.values()):
                ref = np.array([self.path_matrix(by_spelling[ws][0]) for ws in words])
                scale = 1.0 + np.max(np.abs(ref), axis=(1, 2))
                res = np.max(np.abs(arr - ref), axis=(1, 2)) / scale
                res = np.where(self.overflow_rows(ref), 0.0, res)
                bad = np.nonzero(~(res <= TOL))[0]
                if bad.size:
                    i = int(bad[0])
                    return ("images", "not-image-of-word",
                            "matrix %d is not the image of its word %r: got %r, product of the "
                            "generators %r" % (i, words[i], np.round(arr[i], 6).tolist(),
                                               np.round(ref[i], 6).tolist()), float(res[i]))
                return float(np.max(res))
            by_mat = {k: [self.path_matrix(w) for w in v] for k, v in by_spelling.items()}
            worst = 0.0
            for i, ws in enumerate(words):
                cands = by_mat[ws]
                if cands and bool(np.any(self.overflow_rows(np.array(cands)))):
                    continue
                best, bj = None, None
                for j, ref in enumerate(cands):
                    r = float(np.max(np.abs(arr[i] - ref)) / (1.0 + np.max(np.abs(ref))))
                    if best is None or r < best:
                        best, bj = r, j
                if best is None or not best <= TOL:
                    return ("images", "not-image-of-word",
                            "matrix %d is not the image of its word %r: got %r, product of the "
                            "generators %r" % (i, ws, np.round(arr[i], 6).tolist(),
                                               np.round(cands[bj], 6).tolist() if cands else None),
                            best)
                cands.pop(bj)
                worst = max(worst, best)
            return worst
        if arr.shape[0] != len(paths):
            return ("accepted-set", "count",
                    "%d matrices returned, %d accepting paths" % (arr.shape[0], len(paths)), None)
        if not paths:
            return 0.0
        ref = np.array([self.path_matrix(w) for w in paths])
        if bool(np.any(self.overflow_rows(ref))):
            return 0.0          # integer overflow somewhere in the list: images not judged
        if self.complex:
            a = np.concatenate([arr.real, arr.imag], axis=-1)
            r = np.concatenate([ref.real, ref.imag], axis=-1)
        else:
            a, r = arr, ref
        ok, worst, i = fh.match_multiset_fast(a, r, TOL, fl.match_multiset)
        if not ok:
            return ("images", "multiset-mismatch",
                    "returned matrix %r is the image of no remaining accepting path"
                    % (np.round(arr[i], 6).tolist() if i is not None else None), worst)
        return worst


# ---------------------------------------------------------------------------

def setup(run):
    from geometry_tools import representation
    Rep = representation.Representation
    acc = run.monitor("accepted-set", min_events=100)
    img = run.monitor("images", min_events=100)
    memo = run.monitor("memo", min_events=50)
    free = run.monitor("free-reduced", min_events=10)
    run.monitor("agreement", min_events=20)
    run.monitor("images-exact", min_events=10)
    run.monitor("history", min_events=20)
    mons = {"accepted-set": acc, "images": img}
    registry = []        # [dict object, option tuple or None (tainted), {key: fingerprint}]

    def rep_data(rep):
        gens = {}
        for k, v in rep.generators.items():
            a = np.asarray(v)
            if a.dtype == object:
                return None
            gens[k] = a
        return gens

    jcache = []

    def judge_for(M, gens, dim, ew, ps):
        """reference products are memoised while the same (automaton edges,
        generator arrays, options) keep being asked about."""
        for J in jcache:
            if J.edge_words == ew and J.parse_simple == ps and J.dim == dim \
                    and J.M.delta == M.delta and J.M.starts == M.starts \
                    and J.M.vertices == M.vertices and J.gens.keys() == gens.keys() \
                    and all(J.gens[k] is gens[k] and np.array_equal(J.frozen[k], gens[k])
                            for k in gens):
                return J
        J = Judge(M, gens, dim, ew, ps)
        jcache.append(J)
        if len(jcache) > 4:
            jcache.pop(0)
        return J

    def pre(call):
        b = call.bound()
        aut = b.get("automaton")
        try:
            M, prob = fl.snapshot(aut)
            flat = fl.flat_views(aut)
        except Exception:
            return None
        pc = b.get("precomputed")
        before = set(pc.keys()) if isinstance(pc, dict) else None
        return M, prob, flat, before

    def source_class(M, s):
        return "source-start" if s not in set(M.delta.values()) else "start-with-incoming"

    def fingerprint(v):
        if isinstance(v, tuple):
            a = raw_matrices(v[0])
            return (tuple(v[1]), None if a is None else (a.shape, a.tobytes()))
        a = raw_matrices(v)
        return (None, None if a is None else (a.shape, a.tobytes()))

    def hook(call, state):
        if state is None:
            return acc.skip("automaton could not be read")
        M, prob, flat, before = state
        b = call.bound()
        rep = b.get("self")
        if rep is None:
            return acc.skip("call could not be bound to the signature")
        start_state, end_state = b.get("start_state"), b.get("end_state")
        if call.exc is not None:
            if start_state is not None and end_state is not None \
                    and isinstance(call.exc, ValueError):
                return acc.ok()        # documented refusal
            return acc.skip("raised %s" % type(call.exc).__name__)
        if M is None:
            return acc.skip("label view is not an automaton")
        if not fl.coherent(flat):
            return acc.skip("views incoherent (C09)")
        if len(M.starts) != 1 or M.starts[0] not in M.vertices:
            return acc.skip("not exactly one start vertex that is a vertex")
        length = b.get("length")
        if not isinstance(length, (int, np.integer)) or isinstance(length, bool) or length < 0:
            return acc.skip("length is not a non-negative integer")
        length = int(length)
        maxlen, ww = bool(b.get("maxlen")), bool(b.get("with_words"))
        ew = bool(b.get("edge_words"))
        mode = "end" if end_state is not None else ("start" if start_state is not None else "default")
        st = end_state if mode == "end" else start_state
        if st is not None and (not fl.hashable(st) or st not in M.vertices):
            return acc.skip("state is not a vertex")
        gens = rep_data(rep)
        dim = getattr(rep, "_dim", None)
        if gens is None or not gens or dim is None:
            return acc.skip("representation without numeric generators")
        J = judge_for(M, gens, dim, ew, bool(getattr(rep, "parse_simple", True)))
        if not J.readable():
            return acc.skip("an edge label is not a word in / a name of the generators")
        s_path = M.starts[0] if mode != "start" else st
        # judged cap: PATH_CAP for ambient calls; the large-enumeration workload
        # raises it for its own calls (cost of the reference ~ 10 us per path)
        cap = int(_ctx.get("cap", PATH_CAP))
        if fl.count_paths(M, length, s_path, cap) > cap:
            return acc.skip("more accepting paths than the judged cap")
        pc = b.get("precomputed")
        memo_kind = "none" if pc is None else ("fresh" if not before else "reused")
        opts = {"mode": mode, "state": repr(st), "length": length, "maxlen": maxlen,
                "with_words": ww, "edge_words": ew, "memo": memo_kind}
        case = {"route": _ctx["route"], "rep": _ctx["rep"], "options": opts,
                "workload_case": run.current_case}
        cls = "mode:%s/maxlen:%s/%s" % (mode, maxlen, source_class(M, M.starts[0]))
        exp = J.expected(mode, st, length, maxlen)
        # the matrices come back in the wrapping the representation class
        # documents (a composite Transformation / Isometry for the projective and
        # hyperbolic classes, a plain array for Representation) -- on every call,
        # memo hits included (seeded change C06-r2-3)
        try:
            want_type = type(type(rep).array_wrap_func(np.eye(int(dim))[None]))
        except Exception:
            want_type = None
        got_obj = call.result[0] if (ww and isinstance(call.result, tuple)) else call.result
        if want_type is not None and want_type is not np.ndarray \
                and not isinstance(got_obj, want_type):
            acc.fail("accepted-set/result-not-wrapped/%s/memo:%s" % (type(rep).__name__, memo_kind),
                     "automaton_accepted of a %s returned a %s, not the %s its class wraps "
                     "results in" % (type(rep).__name__, type(got_obj).__name__, want_type.__name__),
                     case)
            return
        res = J.problems(call.result, ww, exp)
        if isinstance(res, tuple):
            mname, what, text, resid = res
            mons[mname].fail("%s/%s/%s" % (mname, what, cls),
                             "automaton_accepted(length=%d, %s): %s"
                             % (length, ", ".join("%s=%s" % kv for kv in sorted(opts.items())
                                                  if kv[0] != "length"), text),
                             case, residual=resid)
        else:
            acc.ok()
            img.ok(res)
        # ---- memo invariant
        if isinstance(pc, dict):
            ent = None
            for e in registry:
                if e[0] is pc:
                    ent = e
            key_opts = (id(b.get("automaton")), id(rep), maxlen, ww, mode == "end", ew)
            if ent is None:
                ent = [pc, key_opts, {}]
                registry.append(ent)
                if len(registry) > 64:
                    registry.pop(0)
                if before:
                    ent[1] = None      # arrived pre-populated: provenance unknown
            if ent[1] is None or ent[1] != key_opts:
                ent[1] = None
                return memo.skip("memo reused across different option tuples / of unknown provenance")
            budget = PATH_CAP
            mmode = "end" if mode == "end" else "start"
            for k in sorted(pc.keys(), key=repr):
                v = pc[k]
                if k in ent[2]:
                    if fingerprint(v) != ent[2][k]:
                        memo.fail("memo/entry-changed/%s" % cls,
                                  "memo entry %r, judged correct after an earlier call, has "
                                  "different content after this call" % (k,), case)
                    continue
                if not (isinstance(k, tuple) and len(k) == 2 and isinstance(k[0], (int, np.integer))
                        and fl.hashable(k[1]) and k[1] in M.vertices):
                    memo.fail("memo/malformed-key/%s" % cls,
                              "memo key %r is not (length, state)" % (k,), case)
                    continue
                n, s = int(k[0]), k[1]
                sp = M.starts[0] if mmode == "end" else s
                cnt = fl.count_paths(M, n, sp, budget + 1)
                if cnt > budget:
                    memo.skip("memo entries beyond the per-call path budget")
                    continue
                budget -= cnt
                e2 = J.expected(mmode, s, n, maxlen)
                r2 = J.problems(v, ww, e2)
                if isinstance(r2, tuple):
                    memo.fail("memo/%s/%s/%s" % (r2[0], r2[1], cls),
                              "after automaton_accepted(%s) the memo entry %r is not the "
                              "reference value for its key: %s"
                              % (", ".join("%s=%s" % kv for kv in sorted(opts.items())), k, r2[2]),
                              case, residual=r2[3])
                else:
                    memo.ok(r2)
                    ent[2][k] = fingerprint(v)

    attach.wrap_attr(run, Rep, "automaton_accepted", hook, pre=pre)

    # ---- freely reduced enumeration
    def single_names(rep):
        return all(isinstance(k, str) and len(k) == 1 for k in rep.generators)

    def hook_fre(call):
        if call.exc is not None:
            return free.skip("raised %s" % type(call.exc).__name__)
        b = call.bound()
        rep = b.get("self")
        if rep is None:
            return free.skip("call could not be bound to the signature")
        length, maxlen, ww = b.get("length"), bool(b.get("maxlen")), bool(b.get("with_words"))
        gens = rep_data(rep)
        dim = getattr(rep, "_dim", None)
        if gens is None or not gens or dim is None or not isinstance(length, (int, np.integer)) \
                or length < 0:
            return free.skip("out of domain")
        names = [k for k in gens if k.lower() == k]
        if any(fl.swapcase_inverse(k) not in gens for k in names) or \
                any(k.lower() != k and k.lower() not in gens for k in gens):
            return free.skip("generators without stored inverses")
        ps = bool(getattr(rep, "parse_simple", True))
        if ps and not single_names(rep):
            return free.skip("multi-character generator names in simple-parsing mode")
        if (2 * len(names)) ** int(length) > 40000:
            return free.skip("more words than the judged cap")
        words = fl.free_reduced_words(names, int(length), exact=not maxlen)
        exp = collections.Counter((w, None) for w in words)
        J = Judge(Model(), gens, dim, False, ps)
        res = J.problems(call.result, ww, exp)
        case = {"rep": _ctx["rep"], "length": int(length), "maxlen": maxlen, "with_words": ww,
                "generators": sorted(gens)}
        if isinstance(res, tuple):
            free.fail("free-reduced/%s/%s/freely_reduced_elements/maxlen:%s" % (res[0], res[1], maxlen),
                      "freely_reduced_elements(%d, maxlen=%s, with_words=%s): %s"
                      % (length, maxlen, ww, res[2]), case, residual=res[3])
        else:
            free.ok(res)

    attach.wrap_attr(run, Rep, "freely_reduced_elements", hook_fre)

    def judge_free_words(op, rep_names, length, items, case):
        names = [k for k in rep_names if k.lower() == k]
        try:
            got = collections.Counter(items)
        except TypeError:
            return free.fail("free-reduced/unhashable-item/%s" % op, "%s yielded %r" % (op, items[:3]), case)
        if op == "free_words_of_length":
            want = collections.Counter(fl.concat(w) for w in fl.free_reduced_words(names, length, exact=True))
            if got == want:
                return free.ok()
            missing, extra = want - got, got - want
            if missing:
                return free.fail("free-reduced/missing-word/%s" % op,
                                 "%s(%d) misses %r" % (op, length, sorted(missing)[:6]), case)
            if any(w in want for w in extra):
                return free.fail("free-reduced/repeated-word/%s" % op,
                                 "%s(%d) repeats %r" % (op, length, sorted(extra)[:6]), case)
            return free.fail("free-reduced/not-freely-reduced/%s" % op,
                             "%s(%d) yields %r" % (op, length, sorted(extra)[:6]), case)
        lower = collections.Counter(fl.concat(w) for w in fl.free_reduced_words(names, max(length - 1, -1))) \
            if length >= 1 else collections.Counter()
        upper = collections.Counter(fl.concat(w) for w in fl.free_reduced_words(names, length))
        if lower - got:
            return free.fail("free-reduced/missing-word/%s" % op,
                             "%s(%d) misses the shorter words %r" % (op, length, sorted(lower - got)[:6]), case)
        if any(n > 1 for n in got.values()):
            return free.fail("free-reduced/repeated-word/%s" % op,
                             "%s(%d) repeats %r" % (op, length, [w for w, n in got.items() if n > 1][:6]), case)
        if got - upper:
            return free.fail("free-reduced/not-freely-reduced-or-too-long/%s" % op,
                             "%s(%d) yields %r" % (op, length, sorted(got - upper)[:6]), case)
        free.diag("free_words_less_than(n) %s words of length n"
                  % ("includes" if got == upper else "excludes" if got == lower else "includes some"))
        return free.ok()

    def hook_free_gen(op):
        def h(call):
            if call.exc is not None:
                return
            b = call.bound()
            rep, length = b.get("self"), b.get("length")
            if rep is None:
                return free.skip("call could not be bound to the signature")
            if not isinstance(length, (int, np.integer)) or length < 0:
                return free.skip("out of domain")
            names = list(rep.generators)
            if not single_names(rep):
                free.diag("%s on multi-character generator names (not judged)" % op)
                return free.skip("multi-character generator names")
            if any(fl.swapcase_inverse(k) not in rep.generators for k in names):
                return free.skip("generators without stored inverses")
            if len(names) ** int(length) > 40000:
                return free.skip("more words than the judged cap")
            inner = call.result
            case = {"rep": _ctx["rep"], "op": op, "length": int(length), "generators": sorted(names)}

            def tee():
                items = []
                for x in inner:
                    items.append(x)
                    yield x
                try:
                    with run.quiet():
                        judge_free_words(op, names, int(length), items, case)
                except Exception as e:
                    run.harness_error("free-words judge " + op, e)
            call.result = tee()
        return h

    attach.wrap_attr(run, Rep, "free_words_of_length", hook_free_gen("free_words_of_length"))
    attach.wrap_attr(run, Rep, "free_words_less_than", hook_free_gen("free_words_less_than"))


# ---------------------------------------------------------------------------
# workload machinery

class Stop(Exception):
    pass


def lib(run, mon, op, thunk, expected=()):
    try:
        return thunk()
    except expected as e:
        return e
    except Exception as e:
        if core.raised_in_harness(e.__traceback__):
            raise
        run.monitor(mon).fail(
            "%s/exception:%s/%s/route:%s/rep:%s" % (mon, type(e).__name__, op, _ctx["route"], _ctx["rep"]),
            "%s raised %s: %s on an in-domain case" % (op, type(e).__name__, str(e)[:160]),
            tb=traceback.format_exc())
        raise Stop()


REP_KINDS = ("float2", "float3", "int2", "int3", "proj3")


def make_rep(rng, kind, names):
    """library representation with non-commuting, non-symmetric generators for
    the lowercase `names`; -> (rep, exact matrices dict or None)."""
    from geometry_tools import representation, projective
    dim = int(kind[-1])
    if kind.startswith("int"):
        mats = fl.generator_matrices(rng, names, dim, "int")
    else:
        mats = fl.generator_matrices(rng, names, dim, "float")
    if kind.startswith("proj"):
        rep = projective.ProjectiveRepresentation()
        for g in names:
            rep[g] = projective.Transformation(np.array(mats[g], dtype=float), column_vectors=True)
    else:
        rep = representation.Representation()
        for g in names:
            rep[g] = np.array(mats[g])
    return rep, (mats if kind.startswith("int") else None)


LOOSE_KINDS = ("mono2", "trunc2", "scaled3", "monoproj3", "mono3", "copy2", "trunc3", "scaled2")


def make_loose_rep(rng, kind, names):
    """library representation in which the matrix stored under an inverse name
    is NOT the numerical inverse of the generator's matrix, through the public
    routes that produce such data:
      mono      set_generator(name, M, compute_inverse=False) for every letter
                and every inverse letter independently (a monoid representation)
      monoproj  the same on a ProjectiveRepresentation (wrapped matrices)
      copy      Representation(rep) of a mono representation
      trunc     astype('int64') of a representation with non-integral entries
                (the stored inverse is the truncated inverse)
      scaled    compose() with a non-multiplicative map M -> 1.5 M, applied to
                every stored matrix separately
    The image of a word is the product of the *stored* matrices (ASSUMPTIONS);
    nothing here is an oracle -- the judges read rep.generators back as data."""
    from geometry_tools import representation, projective
    dim = int(kind[-1])
    fam = kind[:-1]
    if fam in ("mono", "monoproj", "copy"):
        for _ in range(50):
            m1 = fl.generator_matrices(rng, names, dim, "float")
            m2 = fl.generator_matrices(rng, names, dim, "float")
            if all(np.max(np.abs(m1[g] @ m2[g] - np.eye(dim))) > 0.2 for g in names):
                break
        if fam == "monoproj":
            rep = projective.ProjectiveRepresentation()
            for g in names:
                rep.set_generator(g, projective.Transformation(np.array(m1[g]), column_vectors=True),
                                  compute_inverse=False)
                rep.set_generator(fl.swapcase_inverse(g),
                                  projective.Transformation(np.array(m2[g]), column_vectors=True),
                                  compute_inverse=False)
            return rep
        rep = representation.Representation()
        for g in names:
            rep.set_generator(g, np.array(m1[g]), compute_inverse=False)
            rep.set_generator(fl.swapcase_inverse(g), np.array(m2[g]), compute_inverse=False)
        if fam == "copy":
            rep = representation.Representation(rep)
        return rep
    if fam == "trunc":
        for _ in range(50):
            ints = fl.generator_matrices(rng, names, dim, "int")
            base = representation.Representation()
            for g in names:
                base[g] = np.asarray(ints[g], dtype=float) + rng.uniform(-0.45, 0.45, size=(dim, dim))
            rep = base.astype("int64")
            st = {k: np.asarray(v, dtype=float) for k, v in rep.generators.items()}
            # informative data: no stored matrix is singular, and a.A is not the identity
            if all(abs(np.linalg.det(v)) > 0.5 for v in st.values()) and all(
                    np.max(np.abs(st[g] @ st[fl.swapcase_inverse(g)] - np.eye(dim))) > 0 for g in names):
                break
        return rep
    if fam == "scaled":
        m1 = fl.generator_matrices(rng, names, dim, "float")
        base = representation.Representation()
        for g in names:
            base[g] = np.array(m1[g])
        return base.compose(lambda M: 1.5 * M)
    raise ValueError(kind)


def lower_names(labels):
    return sorted({c.lower() for lab in labels for c in lab})


def rw_is_inverse(letter):
    return letter != letter.lower()


def exact_check(run, exact, mats, words, dim, what):
    """exact-integer class: the matrices are the exact integer products."""
    if exact is None or words is None:
        return
    mon = run.monitor("images-exact")
    arr = raw_matrices(mats)
    worst = 0.0
    for i, w in enumerate(words):
        # exactness is promised by nothing but integer arithmetic: only words in
        # the generators themselves (whose stored matrices are the integer ones;
        # the inverse letters hold the library's floating-point inverses, judged
        # with a tolerance by the images monitor) and only while the exact product
        # (Python integers: no wrap-around) stays below 2^53, where neither int64
        # nor float64 arithmetic can round or overflow.  (False alarm of thorough
        # seed 3: a 24-letter word, product ~1e24, reference wrapped in int64
        # while the library had switched to float64.)
        if any(rw_is_inverse(c) for c in w):
            continue
        ref = fl.product(exact, list(w), dim, dtype=object)
        big = max(abs(int(x)) for x in np.asarray(ref, dtype=object).ravel())
        if big >= 2 ** 53:
            continue
        ref = np.asarray(ref, dtype=float)
        r = float(np.max(np.abs(np.asarray(arr[i], dtype=float) - ref)) / (1.0 + np.max(np.abs(ref))))
        worst = max(worst, r)
    mon.judge(worst, 1e-9, "images-exact/not-the-integer-product/%s" % what,
              "%s: a returned matrix differs from the exact integer product of its word" % what)


def option_grid(M, rng, full):
    vs = sorted(M.vertices, key=repr)
    modes = [("default", None)]
    if full:
        modes += [("start", v) for v in vs] + [("end", v) for v in vs]
    else:
        modes += [("start", vs[int(rng.integers(0, len(vs)))]),
                  ("end", vs[int(rng.integers(0, len(vs)))]),
                  ("end", M.starts[0])]
    return modes


def drive(run, rng, F, M, rep, exact, L, full, edge_words_opts=(True, False),
          memo_opts=("shared", "none"), single=True, tag="", sample=7, spec=None,
          own_enum=False):
    """the option grid on one (automaton, representation).  `M` is the
    workload's own model of the automaton; `spec` (the class of the edit
    history, e.g. 'parallel') asks for the history monitor: results are judged
    against `M` itself and not against the library's adjacency views."""
    agree = run.monitor("agreement")
    hist = run.monitor("history")
    dim = rep._dim
    modes = option_grid(M, rng, full)
    v0 = nviol(run)
    # the workload's model is the reference of the W relations below only while
    # the automaton's own label view (what FSA.enumerate_* read) says the same
    try:
        MF, _prob = fl.snapshot(F)
    except Exception:
        MF = None
    spec_ok = MF is not None and MF.delta == M.delta and MF.vertices == M.vertices
    TC = fh.Transfer(M) if spec_ok else None
    JS = {}
    if spec is not None and not spec_ok:
        hist.skip("label view differs from the model of the edit history (C09/C10)")
    gens_data = None
    if spec is not None and spec_ok:
        gens_data = {k: np.asarray(v) for k, v in rep.generators.items()}
        if any(a.dtype == object for a in gens_data.values()):
            gens_data = None
    feats = ",".join(sorted(fl.features({v: dict((l, w) for (u, l), w in M.delta.items() if u == v)
                                         for v in M.vertices}, M.starts[0])))
    for ew in edge_words_opts:
        for maxlen in (True, False):
            for ww in (True, False):
                # one shared memo per option tuple (mode kind included), lengths
                # and states in random order
                for kind in ("start", "end"):
                    states = [(m, s) for (m, s) in modes if (m == "end") == (kind == "end")]
                    for memo_kind in memo_opts:
                        shared = {} if memo_kind == "shared" else None
                        calls = [(m, s, n) for (m, s) in states for n in range(L + 1)]
                        quota = sample if memo_kind == "shared" else max(2, sample // 2)
                        if not full and len(calls) > quota:
                            calls = [calls[i] for i in sorted(rng.permutation(len(calls))[:quota])]
                        if memo_kind == "none" and full:
                            calls = [c for c in calls if c[2] in (0, L)]
                        order = rng.permutation(len(calls))
                        for i in order:
                            m, s, n = calls[i]
                            kw = {"maxlen": maxlen, "with_words": ww, "edge_words": ew}
                            if m == "start":
                                kw["start_state"] = s
                            elif m == "end":
                                kw["end_state"] = s
                            if shared is not None:
                                kw["precomputed"] = shared
                            res = lib(run, "accepted-set", "automaton_accepted",
                                      lambda: rep.automaton_accepted(F, n, **kw))
                            if nviol(run) != v0:
                                raise Stop()
                            if TC is not None:
                                # independent path count: e_s^T (A^n | sum A^k) e_t of the
                                # transfer matrix of the workload's model -- one matrix per
                                # accepting path, with or without words, whatever the state of
                                # the adjacency views (seeded change C06-r3-1: a label list
                                # shared by the outgoing and incoming views gets a label
                                # added through add_edges twice, and every word through that
                                # edge comes back twice)
                                s_from = M.starts[0] if m != "start" else s
                                want_n = TC.count(n, s_from, exact=not maxlen,
                                                  end=s if m == "end" else None)
                                garr = raw_matrices(res[0] if (ww and isinstance(res, tuple)) else res)
                                got_n = None if garr is None or garr.ndim != 3 else int(garr.shape[0])
                                agree.require(got_n == want_n,
                                              "agreement/vs-path-count/mode:%s/maxlen:%s" % (m, maxlen),
                                              "automaton_accepted(length=%d, with_words=%s, edge_words=%s) "
                                              "returned %r matrices; the automaton has %d accepting paths "
                                              "(transfer-matrix count)" % (n, ww, ew, got_n, want_n))
                                if gens_data is not None and TC.count(n, s_from) <= PATH_CAP:
                                    # history monitor: words (once per accepting path) and images
                                    # against the model the edit history denotes
                                    J = JS.get(ew)
                                    if J is None:
                                        J = JS[ew] = Judge(M, gens_data, dim, ew,
                                                           bool(getattr(rep, "parse_simple", True)))
                                    if J.readable():
                                        r = J.problems(res, ww, J.expected(m, s, n, maxlen))
                                        if isinstance(r, tuple):
                                            hist.fail("history/%s/%s/after:%s/mode:%s/maxlen:%s"
                                                      % (r[0], r[1], spec, m, maxlen),
                                                      "automaton_accepted(length=%d, with_words=%s, "
                                                      "edge_words=%s, memo=%s) on an automaton edited in "
                                                      "place: %s" % (n, ww, ew, memo_kind, r[2]),
                                                      residual=r[3])
                                        else:
                                            hist.ok(r)
                                if nviol(run) != v0:
                                    raise Stop()
                            if M.delta:
                                run.note_class(_ctx["route"], _ctx["rep"], len(M.vertices), feats, m,
                                               maxlen, ww, ew, memo_kind, n, tag)
                            if ww:
                                mats, words = res
                                if single:
                                    exact_check(run, exact, mats, words, dim, "automaton_accepted")
                                # the automaton's own enumeration, filtered by end state
                                s0 = None if m != "start" else s
                                if maxlen:
                                    en = lib(run, "agreement", "enumerate_words", lambda: list(
                                        F.enumerate_words(n, start_vertex=s0, with_states=True)))
                                else:
                                    en = lib(run, "agreement", "enumerate_fixed_length_paths", lambda: list(
                                        F.enumerate_fixed_length_paths(n, start_vertex=s0, with_states=True)))
                                if TC is not None:
                                    # the automaton's own enumeration against the independent
                                    # references (not only against automaton_accepted): one
                                    # (word, end state) per path of the workload's model --
                                    # transfer-matrix count always, path by path below the cap.
                                    # (seeded change C06-r4-3: enumerate_words keeps its frontier
                                    # in a dict word -> end state; with word labels of unequal
                                    # lengths two paths with the same number of edges spell the
                                    # same word and one of them, with its continuations, is lost)
                                    op = "enumerate_words" if maxlen else "enumerate_fixed_length_paths"
                                    s_en = M.starts[0] if m != "start" else s
                                    n_en = TC.count(n, s_en, exact=not maxlen)
                                    agree.require(len(en) == n_en,
                                                  "agreement/own-enumeration-vs-path-count/%s" % op,
                                                  "FSA.%s(%d, with_states=True) yields %d items; the automaton "
                                                  "has %d paths (transfer-matrix count)" % (op, n, len(en), n_en))
                                    if nviol(run) == v0 and n_en <= PATH_CAP:
                                        ref_en = collections.Counter()
                                        for (w, e), c in fl.language(M, n, s_en, exact=not maxlen).items():
                                            ref_en[(fl.concat(w), e)] += c
                                        try:
                                            got_en = collections.Counter(en)
                                        except TypeError:
                                            got_en = None
                                        if got_en != ref_en:
                                            miss = sorted((ref_en - got_en).elements(), key=repr)[:4] \
                                                if got_en is not None else None
                                            extra = sorted((got_en - ref_en).elements(), key=repr)[:4] \
                                                if got_en is not None else None
                                            agree.fail("agreement/own-enumeration-vs-paths/%s" % op,
                                                       "FSA.%s(%d, with_states=True) is not the list of "
                                                       "(word, end state) of the automaton's paths, each once: "
                                                       "missing %r, not a path / repeated %r"
                                                       % (op, n, miss, extra))
                                        else:
                                            agree.ok()
                                    if own_enum:
                                        # the plain-word form of both enumerators, same reference
                                        for op2, fn2, ex2 in (("enumerate_words", F.enumerate_words, False),
                                                              ("enumerate_fixed_length_paths",
                                                               F.enumerate_fixed_length_paths, True)):
                                            if nviol(run) != v0:
                                                break
                                            ws2 = lib(run, "agreement", op2,
                                                      lambda: list(fn2(n, start_vertex=s0)))
                                            n2 = TC.count(n, s_en, exact=ex2)
                                            good = len(ws2) == n2
                                            if good and n2 <= PATH_CAP:
                                                ref2 = collections.Counter(
                                                    fl.concat(w) for (w, _e), c in
                                                    fl.language(M, n, s_en, exact=ex2).items() for _ in range(c))
                                                good = collections.Counter(ws2) == ref2
                                            agree.require(good, "agreement/own-enumeration-vs-paths/%s/plain" % op2,
                                                          "FSA.%s(%d) does not yield the word of every path of "
                                                          "the automaton exactly once per path (%d items, %d paths)"
                                                          % (op2, n, len(ws2), n2))
                                    if nviol(run) != v0:
                                        raise Stop()
                                want = collections.Counter(w for (w, e) in en if m != "end" or e == s)
                                agree.require(collections.Counter(words) == want,
                                              "agreement/vs-fsa-enumeration/mode:%s/maxlen:%s" % (m, maxlen),
                                              "automaton_accepted words %r differ from the automaton's own "
                                              "enumeration %r" % (sorted(words)[:8], sorted(want)[:8]))
                            else:
                                # with_words=False == the matrices of with_words=True (as a multiset)
                                kw2 = dict(kw, with_words=True)
                                kw2.pop("precomputed", None)
                                res2 = lib(run, "accepted-set", "automaton_accepted",
                                           lambda: rep.automaton_accepted(F, n, **kw2))
                                a, bm = raw_matrices(res), raw_matrices(res2[0])
                                ok = a is not None and bm is not None and a.shape == bm.shape and \
                                    fl.match_multiset(np.asarray(a, dtype=float),
                                                      np.asarray(bm, dtype=float), TOL)[0]
                                agree.require(ok, "agreement/with_words-false-vs-true/mode:%s/maxlen:%s" % (m, maxlen),
                                              "with_words=False returns different matrices from with_words=True")
                            if nviol(run) != v0:
                                raise Stop()
                        if shared is not None and len(calls):
                            # the very same call again on the now-filled memo (seeded
                            # change C06-r2-3: a top-level memo hit that skips the
                            # wrapping of the result); judged by the postcondition
                            m, s, n = calls[int(order[0])]
                            kw = {"maxlen": maxlen, "with_words": ww, "edge_words": ew,
                                  "precomputed": shared}
                            if m == "start":
                                kw["start_state"] = s
                            elif m == "end":
                                kw["end_state"] = s
                            lib(run, "accepted-set", "automaton_accepted",
                                lambda: rep.automaton_accepted(F, n, **kw))
                            if nviol(run) != v0:
                                raise Stop()
    # both start_state and end_state: documented ValueError
    vs = sorted(M.vertices, key=repr)
    r = lib(run, "accepted-set", "automaton_accepted",
            lambda: rep.automaton_accepted(F, 1, start_state=vs[0], end_state=vs[0]),
            expected=(ValueError,))
    run.monitor("accepted-set").require(
        isinstance(r, ValueError), "accepted-set/start-and-end-not-refused",
        "start_state and end_state together are documented as an error")


def one_case(run, rng, d, start, labels, rt, kind, L, full, F=None, **drive_kw):
    M = Model.from_label_dict(d, [start])
    _ctx.update(route=rt, rep=kind)
    run.current_case = {"route": rt, "rep": kind,
                        "label_dict": {repr(v): {l: repr(w) for l, w in nb.items()} for v, nb in d.items()}
                        if len(d) <= 12 else "<%d states>" % len(d), "start": repr(start)}
    try:
        if F is None:
            F = lib(run, "accepted-set", "construct", lambda: fsa_build.build(rt, d, start, rng))
        MF, prob = fl.snapshot(F)
        if MF is None or MF.delta != M.delta or MF.vertices != M.vertices:
            return run.monitor("accepted-set").skip("construction route did not give the specified automaton (C09)")
        rep, exact = make_rep(rng, kind, lower_names(labels))
        run.current_case["generators"] = {k: np.asarray(v) for k, v in rep.generators.items()}
        drive(run, rng, F, M, rep, exact, L, full, **drive_kw)
    except Stop:
        pass
    finally:
        _ctx.update(route="ambient", rep="ambient")


# ---------------------------------------------------------------------------
# workloads

DENSE_N, DENSE_LABELS = 3, "ab"
DENSE_TOTAL = fl.dense_total(DENSE_N, len(DENSE_LABELS))
NR = len(fsa_build.ROUTES)
LABEL_SETS = ["ab", "aA", "aB"]


def dense_one(run, rng, code, full):
    labs = LABEL_SETS[code % len(LABEL_SETS)]
    d0 = fl.dense_decode(code, DENSE_N, "ab")
    # the table's state i is called (i + shift) % 3: the start vertex is not
    # always the falsy name 0 (same family of automata up to isomorphism)
    shift = (code // 5) % DENSE_N
    nm = {i: (i + shift) % DENSE_N for i in range(DENSE_N)}
    d = {nm[v]: {labs["ab".index(l)]: nm[w] for l, w in nb.items()} for v, nb in d0.items()}
    d = {v: d[v] for v in sorted(d)}
    rt = fsa_build.ROUTES[(code // 3) % NR]
    kind = REP_KINDS[(code // 7) % 4]          # float2/float3/int2/int3
    one_case(run, rng, d, nm[0], list(labs), rt, kind, 4, full)


def wl_dense_sample(run, rng, idx):
    code = int(rng.integers(0, DENSE_TOTAL))
    dense_one(run, rng, code, full=(idx % 4 == 0))
    if idx < 2:
        run.sample(run.current_case)


def wl_dense_all(run, rng, idx):
    B = 8
    for code in range(idx * B, min((idx + 1) * B, DENSE_TOTAL)):
        dense_one(run, rng, code, full=True)
    run.extra["dense_automata_full_grid"] = run.extra.get("dense_automata_full_grid", 0) + \
        (min((idx + 1) * B, DENSE_TOTAL) - idx * B)


ALPHABETS = [("a", "b", "A", "B"), ("a", "b", "c", "d"), ("a", "A", "b", "c")]


def wl_random(run, rng, idx):
    d, start, labels = fl.random_automaton(rng, max_states=8, alphabet=ALPHABETS[idx % 3])
    rt = fsa_build.ROUTES[idx % NR]
    kind = REP_KINDS[(idx // NR) % len(REP_KINDS)]
    L = {1: 6, 2: 5, 3: 4, 4: 4}[len(labels)]
    one_case(run, rng, d, start, labels, rt, kind, L, full=(idx % 5 == 0))
    if idx < 2:
        run.sample(run.current_case)


def wl_multiple(run, rng, idx):
    """multi-letter labels: automaton_multiple(2 / 3) of a random automaton,
    labels read as words (edge_words=True)."""
    d, start, labels = fl.random_automaton(rng, max_states=6, alphabet=ALPHABETS[idx % 3][:3])
    k = 2 + idx % 2
    M0 = Model.from_label_dict(d, [start])
    R, edges = fl.multiple_spec(M0, k, start)
    dG = {v: {} for v in R}
    for (v, word), w in edges.items():
        dG[v][fl.concat(word)] = w
    M = Model.from_label_dict(dG, [start])
    kind = REP_KINDS[(idx // 2) % len(REP_KINDS)]
    _ctx.update(route="multiple-%d" % k, rep=kind)
    run.current_case = {"route": "multiple-%d" % k, "rep": kind, "base_label_dict":
                        {repr(v): {l: repr(w) for l, w in nb.items()} for v, nb in d.items()},
                        "start": repr(start)}
    try:
        F0 = fsa_build.build("dict", d, start)
        F = lib(run, "accepted-set", "automaton_multiple", lambda: F0.automaton_multiple(k))
        MF, prob = fl.snapshot(F)
        if MF is None or fl.reachable_part(MF, start)[1] != fl.edges_of(M):
            return run.monitor("accepted-set").skip("automaton_multiple did not give the k-step product (C10)")
        M = Model(MF.vertices, MF.delta, [start])
        rep, exact = make_rep(rng, kind, lower_names(labels))
        run.current_case["generators"] = {g: np.asarray(v) for g, v in rep.generators.items()}
        drive(run, rng, F, M, rep, exact, 3 if k == 2 else 2, full=(idx % 4 == 0),
              edge_words_opts=(True,), tag="k=%d" % k)
    except Stop:
        pass
    finally:
        _ctx.update(route="ambient", rep="ambient")


WORD_LETTERS = [("a", "b", "c"), ("a", "b"), ("a",), ("x", "q")]


def wl_wordlabels(run, rng, idx):
    """edge labels that are words of *unequal* lengths with colliding
    concatenations (u, uv, vw, w: u.vw and uv.w; u, uu: u.uu and uu.u), read as
    words (edge_words=True): two accepting paths with the same number of edges
    spell the same word, ending in different states or in the same one.  Every
    path counts once -- in automaton_accepted (all modes) and in the
    automaton's own enumerators, with and without states, which are judged
    here against the independent path enumeration and the transfer count.
    (automaton_multiple output has labels of one length and never collides.)
    (seeded change C06-r4-3: FSA.enumerate_words holds its frontier as a dict
    word -> end state and loses one of two equally spelled paths.)"""
    family = fsa_wordlabels.FAMILIES[idx % len(fsa_wordlabels.FAMILIES)]
    letters = WORD_LETTERS[(idx // len(fsa_wordlabels.FAMILIES)) % len(WORD_LETTERS)]
    d, start, labels, planted = fsa_wordlabels.random_automaton(rng, family, letters)
    rt = fsa_build.ROUTES[idx % NR]
    kind = REP_KINDS[(idx // 2) % len(REP_KINDS)]
    M = Model.from_label_dict(d, [start])
    L = 4
    cap = 400 if run.tier == "quick" else 1500
    while L > 2 and fl.count_paths(M, L, start, PATH_CAP) > cap:
        L -= 1
    one_case(run, rng, d, start, labels, rt, kind, L, full=(idx % 4 == 0),
             edge_words_opts=(True,), tag="wordlabels:" + family, own_enum=True)
    run.note_class("wordlabels", family, len(letters), rt, kind)


LOOSE_ALPHABETS = [("a", "A", "b"), ("a", "b", "A", "B"), ("a", "A")]


def wl_loose_inverses(run, rng, idx):
    """representations whose inverse-letter matrices are NOT the inverses of
    the letters (LOOSE_KINDS: compute_inverse=False monoid representations,
    copies of them, astype('int64') truncations, non-multiplicative compose())
    driven through automata whose accepted words contain adjacent x X pairs:
      0  automaton_multiple(2 / 3) of a random automaton over a, A, b(, B):
         labels like 'aA', 'bAa' read as words (edge_words=True)
      1  hand-written word labels of lengths 2..4 with cancelling pairs, also
         nested ('baAB'), edge_words=True
      2  one-letter labels over a, A, b, B, edge_words both ways (the pair is
         spread over two edges)
    The image of a returned word is the product of the matrices the
    representation stores under its letters (ASSUMPTIONS) -- the judges
    multiply rep.generators read back as data, so a library that simplifies
    the word with the group law before multiplying is flagged.
    (seeded change C06-r5-2: _word_value freely reduces the label before
    multiplying; 'aA' gives the identity instead of generators['a'] @
    generators['A'].)"""
    variant = idx % 3
    kind = LOOSE_KINDS[idx % len(LOOSE_KINDS)]
    alphabet = LOOSE_ALPHABETS[(idx // 3) % len(LOOSE_ALPHABETS)]
    rt = fsa_build.ROUTES[idx % NR]
    ews, tag, L = (True,), "loose-%d" % variant, 3
    try:
        if variant == 0:
            d0, start, labels0 = fl.random_automaton(rng, max_states=5, alphabet=alphabet)
            k = 2 + (idx // 3) % 2
            R, edges = fl.multiple_spec(Model.from_label_dict(d0, [start]), k, start)
            d = {v: {} for v in R}
            for (v, word), w in edges.items():
                d[v][fl.concat(word)] = w
            F0 = fsa_build.build(rt, d0, start, rng)
            F = lib(run, "accepted-set", "automaton_multiple", lambda: F0.automaton_multiple(k))
            MF, _prob = fl.snapshot(F)
            M = Model.from_label_dict(d, [start])
            if MF is None or fl.reachable_part(MF, start)[1] != fl.edges_of(M):
                return run.monitor("accepted-set").skip(
                    "automaton_multiple did not give the k-step product (C10)")
            M = Model(MF.vertices, MF.delta, [start])
            rt = "multiple-%d" % k
            L = 3 if k == 2 else 2
        elif variant == 1:
            d, start, _labels = fsa_wordlabels.cancelling_automaton(
                rng, tuple(sorted({x.lower() for x in alphabet})))
            M = Model.from_label_dict(d, [start])
            F = fsa_build.build(rt, d, start, rng)
        else:
            d, start, _labels = fl.random_automaton(rng, max_states=6, alphabet=alphabet)
            M = Model.from_label_dict(d, [start])
            F = fsa_build.build(rt, d, start, rng)
            ews, L = (True, False), 4
        _ctx.update(route=rt, rep=kind)
        names = lower_names(alphabet)
        rep = make_loose_rep(rng, kind, names)
        run.current_case = {"route": rt, "rep": kind, "variant": variant, "start": repr(start),
                            "label_dict": {repr(v): {l: repr(w) for l, w in nb.items()} for v, nb in d.items()},
                            "generators": {g: np.asarray(v) for g, v in rep.generators.items()}}
        cap = 300 if run.tier == "quick" else 1500
        while L > 1 and fl.count_paths(M, L, start, PATH_CAP) > cap:
            L -= 1
        drive(run, rng, F, M, rep, None, L, full=(idx % 4 == 0) and len(M.vertices) <= 5,
              edge_words_opts=ews, single=False, tag=tag, sample=5)
        run.note_class("loose", variant, kind, len(alphabet))
    except Stop:
        pass
    finally:
        _ctx.update(route="ambient", rep="ambient")


# ---------------------------------------------------------------------------
# large enumerations

SIZE_TARGETS = (300, 600, 1200, 2400, 4500)      # just above 256 / 512 / 1024 / 2048 / 4096
LARGE_SOURCES = ("free:ab", "f2.wa", "dense", "cone_torus.wa", "multiple", "free:abc",
                 "genus2_surface.wa", "cox334.wa", "pentagon_ra.wa", "cox237.geowa", "dense2")


def large_automaton(run, rng, source):
    """-> (library FSA, model) of an automaton with exponential growth."""
    fsa = fsa_build.fsamod()
    if source.startswith("free:"):
        F = fsa.free_automaton(list(source[5:]))
    elif source in ("dense", "dense2", "multiple"):
        # random automaton, every state with 3-4 outgoing edges (count ~ k^L)
        n = int(rng.integers(2, 6))
        labels = ["a", "b", "A", "B"][:int(rng.integers(3, 5))] if source != "multiple" else ["a", "b", "A"]
        names = list(range(n))
        d = {v: {l: names[int(rng.integers(0, n))] for l in labels} for v in names}
        F = fsa_build.build(fsa_build.ROUTES[int(rng.integers(0, NR))], d, 0, rng)
        if source == "multiple":
            F = lib(run, "accepted-set", "automaton_multiple", lambda: F.automaton_multiple(2))
    else:
        F = fsa.load_builtin(source)
    M, _prob = fl.snapshot(F)
    return F, M


def wl_large(run, rng, idx):
    """LARGE enumerations: automata with exponential growth (free automata,
    built-in word-acceptor files, dense random automata, automaton_multiple
    output) at the first length where the stack of matrices multiplied at the
    top of the recursion (the sub-result of a neighbour of the start state)
    reaches a size target just above 256 / 512 / 1024 / 2048 / 4096 -- the
    sizes at which vectorised fast paths switch on -- in every mode (default,
    start_state, end_state), both maxlen, with and without words, edge labels
    as words and as names, with and without a memo, and through
    freely_reduced_elements.  Every returned matrix is judged by the
    postcondition monitors (the judged cap is raised for these calls).
    (seeded change C06-r6-3: stacks of >= 256 matrices are left-multiplied as
    one product with np.hstack and reshaped with the wrong layout; smaller
    enumerations are untouched.)"""
    agree = run.monitor("agreement")
    quick = run.tier == "quick"
    source = LARGE_SOURCES[idx % len(LARGE_SOURCES)]
    targets = SIZE_TARGETS[:3] if quick else SIZE_TARGETS
    target = targets[idx % len(targets)]
    total_cap = 6500 if quick else 48000
    kind = REP_KINDS[(idx + idx // len(REP_KINDS)) % len(REP_KINDS)]
    _ctx.update(route="large-" + source, rep=kind)
    run.current_case = {"route": "large", "automaton": source, "rep": kind, "size_target": target}
    try:
        F, M = large_automaton(run, rng, source)
        if M is None or len(M.starts) != 1 or not M.delta:
            return run.monitor("accepted-set").skip("automaton is not in the domain")
        start = M.starts[0]
        TC = fh.Transfer(M)
        nbrs = sorted({w for (u, _l), w in M.delta.items() if u == start}, key=repr)
        # first length whose top-level stacks reach the target, within the cap
        L = 1
        while L < 14 and max(TC.count(L - 1, w) for w in nbrs) < target \
                and TC.count(L + 1, start) <= total_cap:
            L += 1
        labels = sorted({l for (_v, l) in M.delta})
        single = all(len(l) == 1 for l in labels)
        names = lower_names(labels)
        if len(names) > 4 and kind not in ("float2", "int2"):
            kind = "float2" if kind.startswith(("float", "proj")) else "int2"
        rep, _exact = make_rep(rng, kind, names)
        run.current_case.update(length=L, accepted=TC.count(L, start),
                                generators={g: np.asarray(v) for g, v in rep.generators.items()})
        # heavy states: most words from it (start mode) / most words into it (end mode)
        vs = sorted(M.vertices, key=repr)
        ok_start = [v for v in vs if TC.count(L, v) <= total_cap]
        s_heavy = max(ok_start, key=lambda v: TC.count(L, v)) if ok_start else start
        e_heavy = max(vs, key=lambda v: TC.count(L, start, end=v))
        ews = ((True, False) if single else (True,))
        if quick:
            ews = ews[idx % len(ews):][:1]
        _ctx["cap"] = total_cap
        v0 = nviol(run)
        ncall = 0
        for ew in ews:
            for maxlen in (True, False):
                for m, st in (("default", None), ("start", s_heavy), ("end", e_heavy)):
                    kw = {"maxlen": maxlen, "edge_words": ew}
                    if m == "start":
                        kw["start_state"] = st
                    elif m == "end":
                        kw["end_state"] = st
                    memo_d = {} if ncall % 2 == 0 else None
                    ncall += 1
                    if memo_d is not None:
                        kw["precomputed"] = memo_d
                    got = {}
                    for ww in (True, False):
                        res = lib(run, "accepted-set", "automaton_accepted",
                                  lambda: rep.automaton_accepted(F, L, with_words=ww, **kw))
                        if nviol(run) != v0:
                            raise Stop()
                        arr = raw_matrices(res[0] if ww else res)
                        got[ww] = arr
                        s_from = start if m != "start" else st
                        want_n = TC.count(L, s_from, exact=not maxlen, end=st if m == "end" else None)
                        agree.require(arr is not None and arr.ndim == 3 and arr.shape[0] == want_n,
                                      "agreement/vs-path-count/mode:%s/maxlen:%s" % (m, maxlen),
                                      "automaton_accepted(length=%d) returned %r matrices; the automaton has "
                                      "%d accepting paths (transfer-matrix count)"
                                      % (L, None if arr is None else arr.shape[0], want_n))
                        if nviol(run) != v0:
                            raise Stop()
                        run.note_class("large", source, kind, L, target, m, maxlen, ww, ew,
                                       memo_d is not None)
                        # the memo must not be shared between with_words settings
                        kw.pop("precomputed", None)
                    a, bm = got[True], got[False]
                    ok = a.shape == bm.shape and fh.match_multiset_fast(
                        np.asarray(a, dtype=float), np.asarray(bm, dtype=float), TOL, fl.match_multiset)[0]
                    agree.require(ok, "agreement/with_words-false-vs-true/mode:%s/maxlen:%s" % (m, maxlen),
                                  "with_words=False returns different matrices from with_words=True")
                    if nviol(run) != v0:
                        raise Stop()
        # the same size through freely_reduced_elements (free automata only)
        if source.startswith("free:ab"):
            for ww in (True, False):
                lib(run, "free-reduced", "freely_reduced_elements",
                    lambda: rep.freely_reduced_elements(L, with_words=ww))
                if nviol(run) != v0:
                    raise Stop()
    except Stop:
        pass
    finally:
        _ctx.pop("cap", None)
        _ctx.update(route="ambient", rep="ambient")


def wl_names(run, rng, idx):
    """multi-character generator names: labels are names (edge_words=False);
    with parse_simple=False also words 's1*t1' (edge_words=True); and names
    that are also words in other generators ('ab' next to 'a','b')."""
    from geometry_tools import representation
    variant = idx % 3
    dim = 2 + (idx // 3) % 2
    try:
        if variant == 0:
            names = ["s1", "s2", "t1"]
            alphabet = ("s1", "S1", "s2", "t1")
            rep = representation.Representation(parse_simple=False)
            ews = (False, True)
        elif variant == 1:
            names = ["s1", "s2", "t1"]
            alphabet = ("s1", "s1*t1", "S1*s2", "t1")
            rep = representation.Representation(parse_simple=False)
            ews = (True,)
        else:
            names = ["a", "b", "ab"]
            alphabet = ("ab", "a", "AB", "b")      # 'ab' is always a label
            rep = representation.Representation()
            ews = (True, False)
        mats = fl.generator_matrices(rng, names, dim, "float")
        for g in names:
            rep[g] = np.array(mats[g])
        d, start, labels = fl.random_automaton(rng, max_states=6, alphabet=alphabet)
        M = Model.from_label_dict(d, [start])
        rt = "names-%d" % variant
        _ctx.update(route=rt, rep="float%d" % dim)
        run.current_case = {"route": rt, "label_dict": {repr(v): {l: repr(w) for l, w in nb.items()}
                                                        for v, nb in d.items()},
                            "start": repr(start), "generators": {g: np.asarray(v) for g, v in rep.generators.items()}}
        F = fsa_build.build(fsa_build.ROUTES[idx % NR], d, start, rng)
        drive(run, rng, F, M, rep, None, 4, full=(idx % 4 == 0), edge_words_opts=ews,
              single=False, tag="names-%d" % variant)
    except Stop:
        pass
    finally:
        _ctx.update(route="ambient", rep="ambient")


def wl_builtin(run, rng, idx):
    fsa = fsa_build.fsamod()
    files = sorted(fsa.list_builtins())
    names = files + ["free:ab", "free:abc"]
    name = names[idx % len(names)]
    if name.startswith("free:"):
        F = fsa.free_automaton(name[5:])
    else:
        F = fsa.load_builtin(name)
    M, prob = fl.snapshot(F)
    run.current_case = {"automaton": name}
    if M is None or len(M.starts) != 1:
        return run.monitor("accepted-set").skip("loaded automaton is not in the domain")
    labels = sorted({l for (_v, l) in M.delta})
    kind = REP_KINDS[(idx // len(names)) % len(REP_KINDS)]
    if len(lower_names(labels)) > 4:
        kind = "float2" if kind.startswith(("float", "proj")) else "int2"
    _ctx.update(route="free" if name.startswith("free:") else "builtin", rep=kind)
    try:
        rep, exact = make_rep(rng, kind, lower_names(labels))
        L = 4
        cap = 400 if run.tier == "quick" else 1500
        while L > 1 and fl.count_paths(M, L, M.starts[0], PATH_CAP) > cap:
            L -= 1
        drive(run, rng, F, M, rep, exact, L, full=False, tag=name,
              sample=3 if run.tier == "quick" else 7)
        run.note_class("loaded", name, kind)
    except Stop:
        pass
    finally:
        _ctx.update(route="ambient", rep="ambient")


def wl_free(run, rng, idx):
    """freely_reduced_elements / free_words_of_length / free_words_less_than."""
    from geometry_tools import representation
    agree = run.monitor("agreement")
    ngen = 1 + idx % 3
    kind = REP_KINDS[(idx // 3) % len(REP_KINDS)]
    names = ["a", "b", "c"][:ngen] if (idx // 15) % 2 == 0 else ["x", "q", "m"][:ngen]
    _ctx.update(route="free-group", rep=kind)
    run.current_case = {"rep": kind, "generators": names}
    try:
        rep, exact = make_rep(rng, kind, names)
        run.current_case["matrices"] = {g: np.asarray(v) for g, v in rep.generators.items()}
        Lmax = {1: 6, 2: 5, 3: 4}[ngen]
        v0 = nviol(run)
        for n in range(Lmax + 1):
            for maxlen in (True, False):
                for ww in (True, False):
                    res = lib(run, "free-reduced", "freely_reduced_elements",
                              lambda: rep.freely_reduced_elements(n, maxlen=maxlen, with_words=ww))
                    if nviol(run) != v0:
                        raise Stop()
                    run.note_class("free", kind, ngen, n, maxlen, ww)
                    if ww:
                        exact_check(run, exact, res[0], res[1], rep._dim, "freely_reduced_elements")
                        if not maxlen:
                            ws = lib(run, "free-reduced", "free_words_of_length",
                                     lambda: list(rep.free_words_of_length(n)))
                            agree.require(collections.Counter(ws) == collections.Counter(res[1]),
                                          "agreement/free_words_of_length-vs-freely_reduced_elements",
                                          "free_words_of_length(%d) and freely_reduced_elements(%d, "
                                          "maxlen=False) list different words" % (n, n))
            ws = lib(run, "free-reduced", "free_words_less_than", lambda: list(rep.free_words_less_than(n)))
            if nviol(run) != v0:
                raise Stop()
        # a representation built by copying another one, and one with a generator re-assigned
        rep2 = representation.Representation(rep) if kind[:4] != "proj" else None
        if rep2 is not None:
            lib(run, "free-reduced", "freely_reduced_elements",
                lambda: rep2.freely_reduced_elements(2, with_words=True))
            rep2["a"] = np.asarray(rep.generators[names[-1]]).copy()
            lib(run, "free-reduced", "freely_reduced_elements",
                lambda: rep2.freely_reduced_elements(2, with_words=True))
    except Stop:
        pass
    finally:
        _ctx.update(route="ambient", rep="ambient")


def wl_free_names(run, rng, idx):
    """multi-character names in non-simple parsing mode through
    freely_reduced_elements (words are concatenated names)."""
    from geometry_tools import representation
    names = [["s1", "t2"], ["gen", "x1", "y"]][idx % 2]
    _ctx.update(route="free-group-names", rep="float2")
    run.current_case = {"generators": names}
    try:
        rep = representation.Representation(parse_simple=False)
        mats = fl.generator_matrices(rng, names, 2, "float")
        for g in names:
            rep[g] = np.array(mats[g])
        for n in range(0, 4):
            for maxlen in (True, False):
                lib(run, "free-reduced", "freely_reduced_elements",
                    lambda: rep.freely_reduced_elements(n, maxlen=maxlen, with_words=True))
        # recorded only (free_words_* look at the last character of a word)
        lib(run, "free-reduced", "free_words_of_length", lambda: list(rep.free_words_of_length(2)))
        run.note_class("free-names", idx % 2)
    except Stop:
        pass
    finally:
        _ctx.update(route="ambient", rep="ambient")


# ---------------------------------------------------------------------------
# histories

EDIT_BASES = fsa_build.ROUTES + ("loaded", "free")
NB, NK = len(EDIT_BASES), len(fsa_edit.KINDS)       # coprime: idx % NB, idx % NK cover all pairs


def apply_script(run, F, ops, mon="history"):
    for op in ops:
        lib(run, mon, "edit:" + op[0], lambda: fsa_edit.apply_lib(F, op))


def wl_edited(run, rng, idx):
    """an automaton (every construction route, built-in files, free automata)
    that is *edited in place* through the documented FSA calls before it is
    enumerated.  The reference is the plain model obtained by applying the same
    script to the model of the construction -- not the library's adjacency
    views, which are exactly what such histories can leave inconsistent while
    the label view stays right.
    (seeded change C06-r3-1: FSA._build_in_dict keeps the outgoing view's label
    lists as the incoming view's entries; add_edges then appends a new label
    between two already-connected states twice, and automaton_accepted returns
    every word through that edge twice.)"""
    fsa = fsa_build.fsamod()
    base = EDIT_BASES[idx % NB]
    primary = fsa_edit.KINDS[idx % NK]
    kind = REP_KINDS[(idx // 2) % len(REP_KINDS)]
    L = 4
    if base == "loaded":
        files = sorted(fsa.list_builtins())
        name = files[(idx // NB) % len(files)]
        F = fsa.load_builtin(name)
        M0, _prob = fl.snapshot(F)
        if M0 is None or len(M0.starts) != 1:
            return run.monitor("history").skip("loaded automaton is not in the domain")
        start = M0.starts[0]
        labels = sorted({l for (_v, l) in M0.delta})
        universe = sorted(set(labels) | {fl.swapcase_inverse(l) for l in labels})
        if len(lower_names(labels)) > 4:
            kind = "float2" if kind.startswith(("float", "proj")) else "int2"
        desc = name
    elif base == "free":
        names = ["ab", "abc", "a", "xq"][(idx // NB) % 4]
        F = fsa.free_automaton(list(names))
        M0 = fh.free_model(list(names))
        start = ""
        labels = universe = fh.free_alphabet(list(names))
        desc = "free:" + names
    else:
        alphabet = ALPHABETS[idx % 3]
        d, start, labels = fl.random_automaton(rng, max_states=6, alphabet=alphabet)
        M0 = Model.from_label_dict(d, [start])
        F = None
        universe = list(alphabet)
        desc = {repr(v): {l: repr(w) for l, w in nb.items()} for v, nb in d.items()}
    _ctx.update(route="edited-" + base, rep=kind)
    ops, M, kinds = fsa_edit.plan(rng, M0, start, universe, primary, extra=int(rng.integers(0, 3)))
    run.current_case = {"route": "edited-" + base, "rep": kind, "base": desc, "start": repr(start),
                        "edits": fsa_edit.describe(ops)}
    try:
        if F is None:
            F = lib(run, "accepted-set", "construct", lambda: fsa_build.build(base, d, start, rng))
        MF, _prob = fl.snapshot(F)
        if MF is None or MF.delta != M0.delta or MF.vertices != M0.vertices:
            return run.monitor("history").skip("construction route did not give the specified automaton (C09)")
        if not ops:
            return run.monitor("history").skip("no edit applicable")
        apply_script(run, F, ops)
        rep, exact = make_rep(rng, kind, lower_names(list(universe) + list(labels)))
        run.current_case["generators"] = {k: np.asarray(v) for k, v in rep.generators.items()}
        cap = 400 if run.tier == "quick" else 1500
        while L > 1 and fl.count_paths(M, L, start, PATH_CAP) > cap:
            L -= 1
        drive(run, rng, F, M, rep, exact, L, full=(idx % 6 == 0) and len(M.vertices) <= 8,
              tag="edit:" + "+".join(kinds), sample=5, spec=kinds[0])
        run.note_class("edited", base, "+".join(kinds), kind)
    except Stop:
        pass
    finally:
        _ctx.update(route="ambient", rep="ambient")


FREE_EDITS = ("delete", "parallel", "rename", "recurrent", "parallel-elist", "new-vertex", "new-pair")


def wl_free_history(run, rng, idx):
    """call-order histories around the free-group automaton inside one process:
    the caller asks the library for a free automaton on the generator list of
    a representation (before or after a first freely_reduced_elements call),
    edits *that object* in place (positive words by deleting the inverse
    states, extra edges, in-place relabelling / pruning) and enumerates it;
    afterwards freely_reduced_elements -- on the same representation, on a new
    one with the same generator list and other matrices, on one of another
    class -- still has to return every freely reduced word exactly once with
    its image (postcondition monitor free-reduced, independent filtered-product
    oracle), and a newly requested free automaton is again the free automaton.
    (seeded change C06-r3-3: fsa.free_automaton hands out one cached FSA per
    generator tuple, so an in-place edit of it is seen by every later freely
    reduced enumeration on those letters.)"""
    fsa = fsa_build.fsamod()
    hist = run.monitor("history")
    ngen = 1 + (idx // 2) % 3
    names = (["a", "b", "c"] if (idx // 6) % 2 == 0 else ["x", "q", "m"])[:ngen]
    if ngen == 1 and idx % 4 >= 2:
        names = ["a", "b"]             # one generator: few edits are visible
        ngen = 2
    kind = REP_KINDS[(idx // 3) % len(REP_KINDS)]
    primary = FREE_EDITS[idx % len(FREE_EDITS)]
    first_call = idx % 2 == 0          # enumerate before the automaton is asked for?
    form = (list, tuple, "".join)[(idx // 2) % 3]
    Lq = {1: 4, 2: 3, 3: 3}[ngen]
    _ctx.update(route="free-history", rep=kind)
    run.current_case = {"route": "free-history", "rep": kind, "generators": names,
                        "enumerate_first": first_call, "requested_as": getattr(form, "__name__", "str")}
    try:
        rep, exact = make_rep(rng, kind, names)
        run.current_case["matrices"] = {g: np.asarray(v) for g, v in rep.generators.items()}
        v0 = nviol(run)
        if first_call:
            lib(run, "free-reduced", "freely_reduced_elements",
                lambda: rep.freely_reduced_elements(2, with_words=True))
            if nviol(run) != v0:
                raise Stop()
        M0 = fh.free_model(names)
        G = lib(run, "history", "free_automaton", lambda: fsa.free_automaton(form(names)))
        MG, _prob = fl.snapshot(G)
        hist.require(MG is not None and MG.delta == M0.delta and MG.vertices == M0.vertices
                     and list(G.start_vertices) == [""],
                     "history/free_automaton-not-free/first-request",
                     "fsa.free_automaton(%r) is not the automaton of freely reduced words" % (names,))
        if nviol(run) != v0:
            raise Stop()
        # the caller's own edits of the caller's own automaton
        ops, M, kinds = fsa_edit.plan(rng, M0, "", fh.free_alphabet(names), primary,
                                      extra=int(rng.integers(0, 2)), keep_start=False)
        run.current_case["edits"] = fsa_edit.describe(ops)
        apply_script(run, G, ops)
        MG, _prob = fl.snapshot(G)
        if MG is not None and MG.delta == M.delta and MG.vertices == M.vertices and "" in M.vertices:
            drive(run, rng, G, M, rep, exact, Lq, full=False, edge_words_opts=(True,),
                  memo_opts=("none",), tag="free-edit:" + "+".join(kinds), sample=4, spec=kinds[0])
            _ctx.update(route="free-history", rep=kind)
        # freely reduced enumeration afterwards: same representation, a new one of
        # the same class with other matrices, one of another class
        kind2 = REP_KINDS[(REP_KINDS.index(kind) + 1 + idx % 3) % len(REP_KINDS)]
        reps = [("same", rep, exact)]
        r2, e2 = make_rep(rng, kind, names)
        reps.append(("new", r2, e2))
        r3, e3 = make_rep(rng, kind2, names)
        reps.append(("other-class", r3, e3))
        for which, rp, ex in reps:
            run.current_case["enumerating"] = which
            for maxlen in (True, False):
                for ww in (True, False):
                    n = Lq if maxlen else Lq - 1
                    res = lib(run, "free-reduced", "freely_reduced_elements",
                              lambda: rp.freely_reduced_elements(n, maxlen=maxlen, with_words=ww))
                    if nviol(run) != v0:
                        raise Stop()
                    if ww:
                        exact_check(run, ex, res[0], res[1], rp._dim, "freely_reduced_elements")
            run.note_class("free-history", which, "+".join(kinds), first_call, ngen)
        # a newly requested free automaton
        G2 = lib(run, "history", "free_automaton", lambda: fsa.free_automaton(list(names)))
        M2, _prob = fl.snapshot(G2)
        hist.require(M2 is not None and M2.delta == M0.delta and M2.vertices == M0.vertices
                     and list(G2.start_vertices) == [""],
                     "history/free_automaton-not-free/after:%s" % kinds[0],
                     "after an earlier free automaton on the same letters was edited in place, "
                     "fsa.free_automaton(%r) is not the automaton of freely reduced words" % (names,))
        if nviol(run) != v0:
            raise Stop()
        own = lib(run, "history", "enumerate_words", lambda: list(G2.enumerate_words(Lq)))
        want = collections.Counter(fl.concat(w) for w in fl.free_reduced_words(names, Lq))
        hist.require(collections.Counter(own) == want,
                     "history/free_automaton-language/after:%s" % kinds[0],
                     "a newly requested free automaton does not enumerate the freely reduced words")
    except Stop:
        pass
    finally:
        _ctx.update(route="ambient", rep="ambient")


# ---------------------------------------------------------------------------
# histories of the representation itself

REASSIGN_KINDS = ("lower-once", "lower-twice", "via-inverse-name", "inverse-then-generator",
                  "generator-inverse-generator", "all-generators", "same-value-then-other",
                  "set_generator-keyword", "copy-then-reassign", "keyword-no-inverse")


class RepHistory:
    """a library representation together with the workload's own record of its
    CURRENT generators: every assignment `rep[name] = X` (or
    set_generator(name, X, compute_inverse=True)) makes X the image of `name`
    and numpy's inverse of X the image of the inverse name, whatever was stored
    under either name before.  The matrix of the assigned name is read back in
    the library's storage convention right after the assignment (for a plain
    Representation it must be X itself); the inverse letter is never read from
    the library -- it is np.linalg.inv of the current matrix."""

    def __init__(self, run, rng, kind, names, rep=None, ref=None):
        from geometry_tools import representation, projective
        self.run, self.rng, self.kind, self.names = run, rng, kind, list(names)
        self.dim = int(kind[-1])
        self.proj = kind.startswith("proj")
        self._T = projective.Transformation
        if rep is None:
            rep = projective.ProjectiveRepresentation() if self.proj else representation.Representation()
        self.rep = rep
        self.ref = dict(ref or {})
        self.log = []

    def fresh(self):
        """new non-commuting generator matrices for all names."""
        return fl.generator_matrices(self.rng, self.names, self.dim,
                                     "int" if self.kind.startswith("int") else "float")

    def assign(self, name, X, how="item"):
        X = np.array(X)
        val = self._T(np.array(X, dtype=float), column_vectors=True) if self.proj else X
        if how == "item":
            lib(self.run, "history", "rep[name] = matrix", lambda: self.rep.__setitem__(name, val))
        elif how == "keyword":
            lib(self.run, "history", "set_generator", lambda: self.rep.set_generator(
                name, val, compute_inverse=True))
        else:
            lib(self.run, "history", "set_generator", lambda: self.rep.set_generator(
                name, val, compute_inverse=False))
        stored = np.array(self.rep.generators[name], copy=True)
        if not self.proj:
            self.run.monitor("history").require(
                stored.shape == X.shape and np.array_equal(stored, X),
                "history/assigned-matrix-not-stored/%s" % how,
                "after assigning generator %r its stored matrix is not the assigned one" % name)
        self.ref[name] = stored
        if how != "no-inverse":
            self.ref[fl.swapcase_inverse(name)] = np.linalg.inv(np.asarray(stored, dtype=float))
        self.log.append([how, name, X])

    def copy(self):
        from geometry_tools import representation
        cls = type(self.rep)
        rep2 = lib(self.run, "history", "copy", lambda: cls(self.rep))
        return RepHistory(self.run, self.rng, self.kind, self.names, rep=rep2,
                          ref={k: np.array(v, copy=True) for k, v in self.ref.items()})


def judge_current(run, H, what, res, ww, exp, M, ew, cls):
    """history monitor: result against the products of the workload's record
    of the current generators."""
    hist = run.monitor("history")
    J = Judge(M, H.ref, H.dim, ew, True)
    r = J.problems(res, ww, exp(J))
    if isinstance(r, tuple):
        hist.fail("history/%s/%s/%s/after:%s" % (r[0], r[1], what, cls),
                  "%s on a representation whose generators were re-assigned: %s (reference: "
                  "numpy product of the current generators, inverse letters = inverse of the "
                  "current generator)" % (what, r[2]), residual=r[3])
        return False
    hist.ok(r)
    return True


def enumerate_current(run, rng, H, F, M, cls, L=3):
    """freely reduced enumeration and automaton_accepted in every mode on the
    representation of history H, judged against its current generators."""
    v0 = nviol(run)
    rep = H.rep
    for maxlen in (True, False):
        for ww in (True, False):
            res = lib(run, "free-reduced", "freely_reduced_elements",
                      lambda: rep.freely_reduced_elements(L, maxlen=maxlen, with_words=ww))
            if nviol(run) != v0:
                raise Stop()
            words = fl.free_reduced_words(H.names, L, exact=not maxlen)
            expc = collections.Counter((w, None) for w in words)
            if not judge_current(run, H, "freely_reduced_elements", res, ww, lambda J: expc,
                                 Model(), False, cls):
                raise Stop()
    vs = sorted(M.vertices, key=repr)
    modes = [("default", None), ("start", vs[int(rng.integers(0, len(vs)))]),
             ("end", vs[int(rng.integers(0, len(vs)))])]
    for ew in (True, False):
        for maxlen in (True, False):
            memo_d = {}
            for m, st in modes:
                for ww in (True, False):
                    kw = {"maxlen": maxlen, "with_words": ww, "edge_words": ew}
                    if m == "start":
                        kw["start_state"] = st
                    elif m == "end":
                        kw["end_state"] = st
                    if m == "default" and ww:
                        kw["precomputed"] = memo_d
                    res = lib(run, "accepted-set", "automaton_accepted",
                              lambda: rep.automaton_accepted(F, L, **kw))
                    if nviol(run) != v0:
                        raise Stop()
                    if not judge_current(run, H, "automaton_accepted", res, ww,
                                         lambda J: J.expected(m, st, L, maxlen), M, ew,
                                         "%s/mode:%s" % (cls, m)):
                        raise Stop()


def wl_reassigned(run, rng, idx):
    """histories of ONE representation object: generators assigned again
    (once, several times, through the inverse name, inverse name first and the
    generator afterwards, all of them, with the explicit keyword, on a copy
    while the original lives on), before and after a first enumeration.  Every
    later enumeration -- freely_reduced_elements and automaton_accepted in all
    modes, words with inverse letters included -- returns the images under the
    CURRENT generators: the reference multiplies the workload's own record
    (assigned matrices; numpy inverses for the inverse letters) instead of
    whatever the object has accumulated in its generator table.
    (seeded change C06-r7-1: _set_generator keeps an inverse that is already
    present, so after rep['a'] = M1; rep['a'] = M2 the letter 'A' is still
    inv(M1).)"""
    cls = REASSIGN_KINDS[idx % len(REASSIGN_KINDS)]
    kind = REP_KINDS[(idx // 2) % len(REP_KINDS)]
    ngen = 1 + (idx // 3) % 3
    names = ["a", "b", "c"][:ngen] if (idx // 7) % 2 == 0 else ["x", "q", "m"][:ngen]
    enumerate_first = idx % 2 == 0
    alphabet = tuple(names) + tuple(g.upper() for g in names)
    d, start, _labels = fl.random_automaton(rng, max_states=5, alphabet=alphabet)
    if not any(l.upper() == l for nb in d.values() for l in nb):
        d[start][names[0].upper()] = start          # some accepted word has an inverse letter
    M = Model.from_label_dict(d, [start])
    _ctx.update(route="reassigned", rep=kind)
    run.current_case = {"route": "reassigned", "rep": kind, "history": cls, "generators": names,
                        "enumerate_first": enumerate_first, "start": repr(start),
                        "label_dict": {repr(v): {l: repr(w) for l, w in nb.items()} for v, nb in d.items()}}
    try:
        F = lib(run, "accepted-set", "construct",
                lambda: fsa_build.build(fsa_build.ROUTES[idx % NR], d, start, rng))
        L = 3
        while L > 1 and fl.count_paths(M, L, start, PATH_CAP) > 300:
            L -= 1
        H = RepHistory(run, rng, kind, names)
        v0 = nviol(run)
        g, G = names[0], names[0].upper()
        last = names[-1]
        m0 = H.fresh()
        if cls == "inverse-then-generator":
            # the inverse name is assigned before the generator itself
            H.assign(G, m0[G])
            for h in names[1:]:
                H.assign(h, m0[h])
        else:
            for h in names:
                H.assign(h, m0[h])
        if nviol(run) != v0:
            raise Stop()
        if enumerate_first:
            enumerate_current(run, rng, H, F, M, "first-assignment", L)
        m1, m2 = H.fresh(), H.fresh()
        others = [H]
        if cls == "lower-once":
            H.assign(g, m1[g])
        elif cls == "lower-twice":
            H.assign(g, m1[g])
            H.assign(g, m2[g])
        elif cls == "via-inverse-name":
            H.assign(G, m1[g])
        elif cls == "inverse-then-generator":
            H.assign(g, m1[g])
        elif cls == "generator-inverse-generator":
            H.assign(g, m1[g])
            H.assign(G, m2[g])
            H.assign(last, m1[last] if last != g else m2[G])
        elif cls == "all-generators":
            for h in names:
                H.assign(h, m1[h])
        elif cls == "same-value-then-other":
            H.assign(g, np.array(m0[g], copy=True))
            H.assign(last, m1[last])
        elif cls == "set_generator-keyword":
            H.assign(g, m1[g], how="keyword")
        elif cls == "copy-then-reassign":
            H2 = H.copy()
            H2.assign(g, m1[g])
            H2.assign(last, m2[last])
            others = [H2, H]            # the original must still enumerate its own generators
        elif cls == "keyword-no-inverse":
            # documented keyword: only this name changes
            H.assign(g, m1[g], how="no-inverse")
            H.assign(last.upper(), m2[last], how="item")
        if nviol(run) != v0:
            raise Stop()
        for i, Hx in enumerate(others):
            run.current_case["assignments"] = [[a, b, np.asarray(c)] for a, b, c in Hx.log]
            enumerate_current(run, rng, Hx, F, M, cls if i == 0 else cls + "/original", L)
        run.note_class("reassigned", cls, kind, ngen, enumerate_first)
    except Stop:
        pass
    finally:
        _ctx.update(route="ambient", rep="ambient")


WORKLOADS = [
    Workload("dense-sample", wl_dense_sample, quick=32, thorough=0),
    Workload("dense-all", wl_dense_all, quick=0, thorough=(DENSE_TOTAL + 7) // 8),
    Workload("random", wl_random, quick=36, thorough=2400),
    Workload("multiple-labels", wl_multiple, quick=14, thorough=400),
    Workload("generator-names", wl_names, quick=12, thorough=400),
    Workload("word-labels", wl_wordlabels, quick=12, thorough=480),
    Workload("loose-inverses", wl_loose_inverses, quick=16, thorough=480),
    Workload("large", wl_large, quick=4, thorough=66),
    Workload("builtin", wl_builtin, quick=20, thorough=100),
    Workload("free-group", wl_free, quick=9, thorough=120),
    Workload("free-group-names", wl_free_names, quick=2, thorough=8),
    Workload("edited", wl_edited, quick=27, thorough=720),
    Workload("free-history", wl_free_history, quick=14, thorough=210),
    Workload("reassigned", wl_reassigned, quick=20, thorough=300),
]
EXHAUSTIVE = {"quick": False, "thorough": False}
