"""C10 -- automaton operations transform the accepted language as documented.

Monitors (P = postcondition attached to the real FSA method, W = workload relation)
  walk            (P) follow_word / accepts / initial_accepted_subword /
                  initial_rejected_subword against the set model's walk.
  enumeration     (P) enumerate_fixed_length_paths / enumerate_words: the yielded
                  multiset (words with end states) == DFS language of the model;
                  judged when the (transparently wrapped) generator is exhausted,
                  so the library's internal enumerations are judged too.
  multiple        (P) automaton_multiple / even_automaton: reachable part of the
                  result == k-step product of the model (block labels).
  relabel         (P) rename_generators (both inplace modes): letterwise image.
  recurrent       (P) recurrent (both modes): greatest fixed point of dead-end
                  pruning of the model.
  shortest-paths  (P) remove_long_paths: edges with dist(w) == dist(v)+1 from the
                  root (edge_ties=False: a BFS tree inside that set).
  write-watch     (P) three views + start list of `self` around every
                  non-in-place operation; label view around every query; (W)
                  edits of a result never show in the original.
  agreement       (W) accepts / follow_word / prefix query / enumerators of one
                  automaton agree with each other (library vs library).
All oracles: gtmon.ref.fsa_model + gtmon.ref.fsa_lang (numpy only).
"""
import collections
import copy
import os
import traceback

from ..run import Workload
from .. import attach, core
from ..ref import fsa_lang as fl
from ..ref.fsa_model import Model
from ..gen import fsa_build

ID = "C10"
RULE = ("cases = (automaton, construction route, operation, arguments): dense = "
        "every deterministic automaton with 3 states/2 labels (4,096), 2 states/3 "
        "labels (729), 2 states/2 labels (81) x 7 routes (thorough: all; quick: "
        "sampled), sampled 3x3, 4x2 and 4x3 tables; random <=10 states/<=4 labels "
        "with source start, self-loops, parallel edges, unreachable states, dead "
        "ends, int / str / '' vertex names; built-in .wa/.geowa files, free and "
        "Coxeter automata; per automaton all words to length 4-5 over the alphabet "
        "+ a foreign letter (string and label-list form, every start vertex), "
        "enumerations from every vertex, k=1..4, all injective relabellings of a "
        "sample (permutations, fresh and multi-character names), all roots, both "
        "edge_ties, both inplace modes, and the same queries again on every "
        "derived automaton.  non-trivial = the automaton has >=1 edge; distinct = "
        "distinct (operation, route, #states, #labels, features, argument) "
        "signatures")
ASSUMPTIONS = [
    "automata have exactly one start vertex (FSA documents that longer start "
    "lists are not handled) and coherent views (C09); others are counted, not judged",
    "automaton_multiple is judged only when the k-blocks leaving each vertex "
    "have distinct concatenations (single-character base labels, or fixed-length "
    "blocks); its labels are words, so its language is tested with label lists",
    "the vertex set of remove_long_paths / automaton_multiple results is not "
    "specified by the documentation: only edges / language are judged",
    "initial_rejected_subword of an ACCEPTED word is not judged (the docstring "
    "says None, the code returns the word; the property does not mention it): "
    "recorded as a diagnostic",
    "an adjacency query (has_edge / edge_labels) leaves the automaton in the "
    "domain of every operation (route 'queried')",
]
_F = "geometry_tools/automata/fsa.py"
ANCHORS = [(_F, "FSA." + q) for q in (
    "follow_word", "accepts", "initial_accepted_subword",
    "initial_rejected_subword", "enumerate_fixed_length_paths",
    "enumerate_words", "automaton_multiple", "even_automaton", "recurrent",
    "remove_long_paths", "rename_generators", "add_vertices", "has_edge")]
REQUIRED = [
    (_F, "FSA.follow_word", "raise FSAException("),
    (_F, "FSA.follow_word", "return vertex"),
    (_F, "FSA.accepts", "return False"),
    (_F, "FSA.initial_accepted_subword", "return subword"),
    (_F, "FSA.enumerate_fixed_length_paths", "yield (word + label, neighbor)"),
    (_F, "FSA.enumerate_fixed_length_paths", "yield word + label"),
    (_F, "FSA.automaton_multiple", "to_visit.append(neighbor)"),
    (_F, "FSA.even_automaton", "return self.automaton_multiple(2)"),
    (_F, "FSA.recurrent", "to_modify.delete_vertex(v)"),
    (_F, "FSA.recurrent", "return to_modify"),
    (_F, "FSA.remove_long_paths", "short_nbrs = [w for w in self.neighbors_out(v)"),
    (_F, "FSA.remove_long_paths", "root = self.start_vertices[0]"),
    (_F, "FSA.rename_generators", "self._from_graph_dict(new_dict)"),
    (_F, "FSA.rename_generators", "return FSA(new_dict, self.start_vertices)"),
]

ENUM_CAP = 30000          # paths; larger enumerations are counted, not judged
_ctx = {"route": "ambient"}


def nviol(run):
    return sum(e["count"] for e in run.violations.values())


def route():
    """input-class tag used in mechanism keys: the construction route of the
    automaton, or 'derived-<op>' for an automaton produced by an operation."""
    r = _ctx.get("route", "ambient")
    if ">" in r:
        return "derived-" + r.rsplit(">", 1)[1]
    return r


def all_str(labels):
    return all(isinstance(x, str) for x in labels)


_SIGS = {
    "follow_word": (("word", None), ("start_vertex", None)),
    "accepts": (("word", None), ("start_vertex", None)),
    "initial_accepted_subword": (("word", None),),
    "initial_rejected_subword": (("word", None),),
    "enumerate_fixed_length_paths": (("length", None), ("start_vertex", None), ("with_states", False)),
    "enumerate_words": (("max_length", None), ("start_vertex", None), ("with_states", False)),
}


def args_of(call, op):
    """argument dict of a monitored FSA method call (positional or keyword),
    without the cost of inspect.signature on every event."""
    out = {}
    pos = call.args[1:]
    for i, (name, default) in enumerate(_SIGS[op]):
        if i < len(pos):
            out[name] = pos[i]
        else:
            out[name] = call.kwargs.get(name, default)
    return out


# ---------------------------------------------------------------------------
# monitors

def setup(run):
    fsa = fsa_build.fsamod()
    FSA = fsa.FSA
    FSAException = fsa.FSAException
    walk = run.monitor("walk", min_events=200)
    enum = run.monitor("enumeration", min_events=100)
    mult = run.monitor("multiple", min_events=20)
    relab = run.monitor("relabel", min_events=20)
    recu = run.monitor("recurrent", min_events=20)
    shortest = run.monitor("shortest-paths", min_events=20)
    watch = run.monitor("write-watch", min_events=100)
    run.monitor("agreement", min_events=20)
    rej = run.monitor("rejected-prefix-of-accepted-word", deciding=False)

    def case_of(call, extra=None):
        c = {"route": route(), "workload_case": run.current_case}
        if extra:
            c.update(extra)
        return c

    # -- queries ----------------------------------------------------------
    def pre_query(call):
        return fl.snapshot(call.args[0])

    def pre_enum(call):
        # enumerations made by automaton_multiple itself: the automaton is the
        # one snapshotted when the operation started; judged within a budget
        if _ctx.get("op_depth", 0) > 0:
            if _ctx.get("enum_budget", 0) <= 0:
                return "over-budget", None
            held = _ctx.get("op_model")
            if held is not None and held[0] is call.args[0]:
                return held[1], None
        return fl.snapshot(call.args[0])

    def label_watch(call, M, op):
        M2, prob2 = fl.snapshot(call.args[0])
        if M2 is None:
            return watch.fail("write-watch/label-view-corrupted/after:%s/route:%s" % (op, route()),
                              "after %s(%r) the %s" % (op, args_of(call, op).get("word"), prob2),
                              case_of(call))
        if M2.delta != M.delta or M2.vertices != M.vertices:
            return watch.fail("write-watch/label-view-changed/after:%s/route:%s" % (op, route()),
                              "the query %s(%r) changed the automaton's label view: %r"
                              % (op, args_of(call, op).get("word"),
                                 sorted(set(M2.delta.items()) ^ set(M.delta.items()), key=repr)[:4]),
                              case_of(call))
        watch.ok()
        return True

    def word_of(call, op):
        b = args_of(call, op)
        try:
            w = tuple(b.get("word"))
        except TypeError:
            return None
        if not all(fl.hashable(x) for x in w):
            return None
        return w

    def hook_follow(call, state):
        if state is None:
            return
        M, prob = state
        if M is None:
            return walk.skip("label view not an automaton before the call")
        w = word_of(call, "follow_word")
        if w is None:
            return walk.skip("word is not a sequence of hashable labels")
        s = args_of(call, "follow_word").get("start_vertex")
        if s is None:
            if len(M.starts) != 1:
                return walk.skip("not exactly one start vertex")
            s = M.starts[0]
        if not fl.hashable(s) or s not in M.vertices:
            return walk.skip("start vertex is not a vertex")
        end = M.follow(w, s)
        cs = case_of(call, {"word": list(w), "start": repr(s), "model_end": repr(end)})
        if call.exc is not None:
            if isinstance(call.exc, FSAException):
                walk.require(end is None,
                             "walk/rejects-accepted-word/follow_word/route:%s" % route(),
                             "follow_word(%r) raised FSAException but the word is accepted "
                             "(model end state %r)" % (list(w), end), cs)
            else:
                walk.skip("raised %s" % type(call.exc).__name__)
            return
        if end is None:
            return walk.fail("walk/follows-nonaccepted-word/follow_word/route:%s" % route(),
                             "follow_word(%r) returned %r for a word that is not accepted from %r"
                             % (list(w), call.result, s), cs)
        if walk.require(fl.hashable(call.result) and call.result == end,
                        "walk/wrong-end-state/follow_word/route:%s" % route(),
                        "follow_word(%r) = %r, model end state %r" % (list(w), call.result, end), cs):
            label_watch(call, M, "follow_word")

    def hook_accepts(call, state):
        if state is None:
            return
        M, prob = state
        if M is None:
            return walk.skip("label view not an automaton before the call")
        if call.exc is not None:
            return walk.skip("raised %s" % type(call.exc).__name__)
        w = word_of(call, "accepts")
        if w is None:
            return walk.skip("word is not a sequence of hashable labels")
        s = args_of(call, "accepts").get("start_vertex")
        starts = [s] if s is not None else list(M.starts)
        if len(starts) != 1 or not fl.hashable(starts[0]) or starts[0] not in M.vertices:
            return walk.skip("not exactly one start vertex that is a vertex")
        exp = M.follow(w, starts[0]) is not None
        cs = case_of(call, {"word": list(w), "start": repr(starts[0])})
        if exp:
            good = walk.require(call.result is True or call.result == 1,
                                "walk/rejects-accepted-word/accepts/route:%s" % route(),
                                "accepts(%r) = %r for an accepted word" % (list(w), call.result), cs)
        else:
            good = walk.require(call.result is False or call.result == 0,
                                "walk/accepts-nonaccepted-word/accepts/route:%s" % route(),
                                "accepts(%r) = %r for a word that is not accepted from %r"
                                % (list(w), call.result, starts[0]), cs)
        if good:
            label_watch(call, M, "accepts")

    def hook_prefix(which):
        def hook(call, state):
            if state is None:
                return
            M, prob = state
            if M is None:
                return walk.skip("label view not an automaton before the call")
            if call.exc is not None:
                return walk.skip("raised %s" % type(call.exc).__name__)
            w = word_of(call, "initial_%s_subword" % which)
            if w is None or not all_str(w):
                return walk.skip("word is not a sequence of string labels")
            if len(M.starts) != 1 or M.starts[0] not in M.vertices:
                return walk.skip("not exactly one start vertex that is a vertex")
            k = fl.longest_prefix(M, w, M.starts[0])
            cs = case_of(call, {"word": list(w), "accepted_prefix_length": k})
            if which == "accepted":
                walk.require(call.result == fl.concat(w[:k]),
                             "walk/wrong-accepted-prefix/initial_accepted_subword/route:%s" % route(),
                             "initial_accepted_subword(%r) = %r, longest accepted prefix is %r"
                             % (list(w), call.result, fl.concat(w[:k])), cs)
            elif k < len(w):
                walk.require(call.result == fl.concat(w[:k + 1]),
                             "walk/wrong-rejected-prefix/initial_rejected_subword/route:%s" % route(),
                             "initial_rejected_subword(%r) = %r, shortest rejected prefix is %r"
                             % (list(w), call.result, fl.concat(w[:k + 1])), cs)
            else:
                rej.diag("returns None" if call.result is None else
                         "returns the word itself (docstring: None)"
                         if call.result == fl.concat(w) else "returns something else")
            label_watch(call, M, "initial_%s_subword" % which)
        return hook

    attach.wrap_attr(run, FSA, "follow_word", hook_follow, pre=pre_query)
    attach.wrap_attr(run, FSA, "accepts", hook_accepts, pre=pre_query)
    attach.wrap_attr(run, FSA, "initial_accepted_subword", hook_prefix("accepted"), pre=pre_query)
    attach.wrap_attr(run, FSA, "initial_rejected_subword", hook_prefix("rejected"), pre=pre_query)

    # -- enumerators (generators: judged at exhaustion) --------------------
    def judge_enum(op, M, b, items, cs, rt):
        length = b.get("length", b.get("max_length"))
        s = b.get("start_vertex")
        if s is None:
            s = M.starts[0]
        ws = bool(b.get("with_states"))
        exp = collections.Counter()
        for (w, v), n in fl.language(M, length, s, exact=(op == "enumerate_fixed_length_paths")).items():
            exp[(fl.concat(w), v) if ws else fl.concat(w)] += n
        try:
            got = collections.Counter(items)
        except TypeError:
            return enum.fail("enumeration/unhashable-item/%s/route:%s" % (op, rt),
                             "%s yielded an unhashable item: %r" % (op, items[:3]), cs)
        if got == exp:
            return enum.ok()
        missing = exp - got
        extra = got - exp
        cs = dict(cs, missing=[repr(x) for x in list(missing)[:5]],
                  extra=[repr(x) for x in list(extra)[:5]])
        if missing:
            return enum.fail("enumeration/missing-word/%s/route:%s" % (op, rt),
                             "%s(%r, start=%r) misses %r" % (op, length, s, list(missing)[:4]), cs)
        dup = [x for x in extra if x in exp]
        if dup:
            return enum.fail("enumeration/duplicate-word/%s/route:%s" % (op, rt),
                             "%s(%r, start=%r) lists %r more than once" % (op, length, s, dup[:4]), cs)
        return enum.fail("enumeration/word-not-accepted/%s/route:%s" % (op, rt),
                         "%s(%r, start=%r) lists %r which is not a path of the automaton"
                         % (op, length, s, list(extra)[:4]), cs)

    def hook_enum(op):
        def hook(call, state):
            if state is None:
                return
            M, prob = state
            if call.exc is not None:
                return
            if M == "over-budget":
                return enum.skip("internal enumeration beyond the per-operation budget")
            if M is None:
                return enum.skip("label view not an automaton before the call")
            b = args_of(call, op)
            length = b.get("length", b.get("max_length"))
            s = b.get("start_vertex")
            if _ctx.get("op_depth", 0) > 0:
                _ctx["enum_budget"] = _ctx.get("enum_budget", 0) - 1
            if not isinstance(length, int) or length < 0:
                return enum.skip("negative or non-integer length")
            if s is None and len(M.starts) != 1:
                return enum.skip("not exactly one start vertex")
            s0 = M.starts[0] if s is None else s
            if not fl.hashable(s0) or s0 not in M.vertices:
                return enum.skip("start vertex is not a vertex")
            if not all_str(lab for (_v, lab) in M.delta):
                return enum.skip("non-string labels")
            if fl.count_paths(M, length, s0, ENUM_CAP) > ENUM_CAP:
                return enum.skip("enumeration larger than the judged cap")
            cs = case_of(call, {"op": op, "length": length, "start": repr(s0),
                                "with_states": bool(b.get("with_states"))})
            rt = route()
            inner = call.result

            def tee():
                items = []
                for x in inner:
                    items.append(x)
                    yield x
                try:
                    with run.quiet():
                        judge_enum(op, M, b, items, cs, rt)
                except Exception as e:      # monitor bug, never the library's
                    run.harness_error("enumeration judge " + op, e)
            call.result = tee()
        return hook

    attach.wrap_attr(run, FSA, "enumerate_fixed_length_paths",
                     hook_enum("enumerate_fixed_length_paths"), pre=pre_enum)
    attach.wrap_attr(run, FSA, "enumerate_words", hook_enum("enumerate_words"), pre=pre_enum)

    # -- operations ----------------------------------------------------------
    def pre_op(call):
        F = call.args[0]
        M, prob = fl.snapshot(F)
        return M, prob, fl.flat_views(F)

    def pre_multiple(call):
        # the operation enumerates k-paths from every vertex it visits (often
        # many times): only the first few of these internal enumerations are judged
        st = pre_op(call)
        _ctx["op_depth"] = _ctx.get("op_depth", 0) + 1
        if _ctx["op_depth"] == 1:
            _ctx["enum_budget"] = 8
            _ctx["op_model"] = (call.args[0], st[0]) if st[0] is not None else None
        return st

    def self_watch(call, flat, op):
        d = fl.views_diff(flat, fl.flat_views(call.args[0]))
        if d is not None:
            return watch.fail("write-watch/%s-changed/after:%s/route:%s" % (d[0], op, route()),
                              "%s (not in place) changed the original's %s: %s" % (op, d[0], d[1]),
                              case_of(call))
        watch.ok()
        return True

    def result_model(mon, name, G, call):
        """snapshot of a result automaton, with the coherence of its views."""
        if not isinstance(G, FSA):
            mon.fail("%s/no-automaton-returned/route:%s" % (name, route()),
                     "%s returned %r instead of an automaton" % (name, type(G).__name__),
                     case_of(call))
            return None
        MG, prob = fl.snapshot(G)
        if MG is None:
            mon.fail("%s/result-label-view-corrupt/route:%s" % (name, route()),
                     "result of %s: %s" % (name, prob), case_of(call))
            return None
        if not fl.coherent(fl.flat_views(G)):
            mon.fail("%s/result-views-incoherent/route:%s" % (name, route()),
                     "the label / outgoing / incoming views of the result of %s differ" % name,
                     case_of(call, {"views": fl.flat_views(G)}))
            return None
        return MG

    def domain(mon, M, prob, flat, need_start=True):
        if M is None:
            mon.skip("label view not an automaton before the call")
            return False
        if not fl.coherent(flat):
            mon.skip("views incoherent before the call (C09)")
            return False
        if need_start and (len(M.starts) != 1 or M.starts[0] not in M.vertices):
            mon.skip("not exactly one start vertex that is a vertex")
            return False
        return True

    def edge_list(es):
        return [list(map(repr, e)) for e in sorted(es, key=repr)[:6]]

    def hook_multiple(opname):
        def hook(call, state):
            _ctx["op_depth"] = max(0, _ctx.get("op_depth", 1) - 1)
            if _ctx["op_depth"] == 0:
                _ctx["op_model"] = None
            if state is None:
                return
            M, prob, flat = state
            if call.exc is not None:
                return
            if not domain(mult, M, prob, flat):
                return
            k = 2 if opname == "even_automaton" else call.bound().get("multiple")
            if not isinstance(k, int) or isinstance(k, bool) or k < 1:
                return mult.skip("multiple is not a positive integer")
            if not all_str(lab for (_v, lab) in M.delta):
                return mult.skip("non-string labels")
            s = M.starts[0]
            deg = collections.Counter(v for (v, _l) in M.delta)
            if len(M.vertices) * max([1] + list(deg.values())) ** k > 4 * ENUM_CAP:
                return mult.skip("product larger than the judged cap")
            R, edges = fl.multiple_spec(M, k, s)
            if len(edges) > 4 * ENUM_CAP:
                return mult.skip("product larger than the judged cap")
            if not fl.concat_injective(edges):
                return mult.skip("k-blocks not uniquely decodable from their concatenation")
            MG = result_model(mult, "multiple", call.result, call)
            if MG is None:
                return
            exp = set((v, w, fl.concat(word)) for (v, word), w in edges.items())
            cs = case_of(call, {"k": k, "start": repr(s)})
            if list(call.result.start_vertices) != [s]:
                return mult.fail("multiple/start-state/route:%s" % route(),
                                 "start vertices of the %d-multiple are %r, original %r"
                                 % (k, call.result.start_vertices, [s]), cs)
            if s not in MG.vertices:
                # the empty word has length 0 = 0 mod k: the start state must be a
                # state of the result, or its own enumerators raise KeyError
                # (seeded change C10-r2-1)
                return mult.fail("multiple/start-state-not-a-vertex/k=%d/route:%s" % (k, route()),
                                 "the start state %r is not a vertex of the %d-multiple "
                                 "(no accepted word of length %d leaves it)" % (s, k, k), cs)
            _verts, got = fl.reachable_part(MG, s)
            if got != exp:
                missing, extra = exp - got, got - exp
                cs.update(missing=edge_list(missing), extra=edge_list(extra))
                if missing:
                    return mult.fail("multiple/missing-block-edge/k=%d/route:%s" % (k, route()),
                                     "%d-multiple lacks the block edges %r: accepted words of "
                                     "length = 0 mod %d are not accepted" % (k, edge_list(missing), k), cs)
                return mult.fail("multiple/extra-block-edge/k=%d/route:%s" % (k, route()),
                                 "%d-multiple has block edges %r that are no %d-step paths"
                                 % (k, edge_list(extra), k), cs)
            if MG.vertices != R:
                mult.diag("vertex set of the result differs from the k-reachable set")
            mult.ok()
            self_watch(call, flat, opname)
        return hook

    attach.wrap_attr(run, FSA, "automaton_multiple", hook_multiple("automaton_multiple"), pre=pre_multiple)
    attach.wrap_attr(run, FSA, "even_automaton", hook_multiple("even_automaton"), pre=pre_multiple)

    def hook_rename(call, state):
        if state is None:
            return
        M, prob, flat = state
        if call.exc is not None:
            return
        if not domain(relab, M, prob, flat, need_start=False):
            return
        b = call.bound()
        mp, inplace = b.get("rename_map"), bool(b.get("inplace"))
        used = {lab for (_v, lab) in M.delta}
        if not isinstance(mp, dict) or not used <= set(mp):
            return relab.skip("map does not cover every label")
        if not all(fl.hashable(mp[l]) for l in used) or len({mp[l] for l in used}) != len(used):
            return relab.skip("map not injective on the labels in use")
        target = call.args[0] if inplace else call.result
        MT = result_model(relab, "relabel", target, call)
        if MT is None:
            return
        exp = set((v, w, mp[lab]) for (v, lab), w in M.delta.items())
        cs = case_of(call, {"rename_map": {repr(k): repr(v) for k, v in mp.items()}, "inplace": inplace})
        got = fl.edges_of(MT)
        if got != exp or MT.vertices != M.vertices:
            cs.update(missing=edge_list(exp - got), extra=edge_list(got - exp))
            return relab.fail("relabel/wrong-edge-set/inplace:%s/route:%s" % (inplace, route()),
                              "renamed automaton is not the letterwise image: missing %r, extra %r, "
                              "vertex difference %r" % (edge_list(exp - got), edge_list(got - exp),
                                                        sorted(MT.vertices ^ M.vertices, key=repr)[:4]), cs)
        if list(target.start_vertices) != list(M.starts):
            return relab.fail("relabel/start-state/inplace:%s/route:%s" % (inplace, route()),
                              "start vertices %r became %r" % (M.starts, target.start_vertices), cs)
        if inplace and call.result is not None:
            relab.diag("in-place rename returned something")
        relab.ok()
        if not inplace:
            self_watch(call, flat, "rename_generators")

    attach.wrap_attr(run, FSA, "rename_generators", hook_rename, pre=pre_op)

    def hook_recurrent(call, state):
        if state is None:
            return
        M, prob, flat = state
        if call.exc is not None:
            return
        if not domain(recu, M, prob, flat, need_start=False):
            return
        inplace = bool(call.bound().get("inplace"))
        target = call.args[0] if inplace else call.result
        MT = result_model(recu, "recurrent", target, call)
        if MT is None:
            return
        exp = M.recurrent()
        cs = case_of(call, {"inplace": inplace,
                            "expected_vertices": sorted(map(repr, exp.vertices)),
                            "got_vertices": sorted(map(repr, MT.vertices))})
        rt = "inplace:%s/route:%s" % (inplace, route())
        if MT.vertices - exp.vertices:
            bad = sorted(MT.vertices - exp.vertices, key=repr)
            has_out = {u for (u, _l) in MT.delta}
            has_in = set(MT.delta.values())
            if any(v not in has_out or v not in has_in for v in bad):
                return recu.fail("recurrent/keeps-dead-end-vertex/" + rt,
                                 "recurrent version keeps %r, which lack an incoming or an "
                                 "outgoing edge" % bad[:4], cs)
            return recu.fail("recurrent/not-a-subautomaton/" + rt,
                             "recurrent version has vertices %r outside the greatest fixed point"
                             % bad[:4], cs)
        if exp.vertices - MT.vertices:
            return recu.fail("recurrent/drops-live-vertex/" + rt,
                             "recurrent version drops %r, which belong to the largest "
                             "sub-automaton without dead ends"
                             % sorted(exp.vertices - MT.vertices, key=repr)[:4], cs)
        if fl.edges_of(MT) != fl.edges_of(exp):
            return recu.fail("recurrent/wrong-edge-set/" + rt,
                             "recurrent version: edges %r missing, %r extra"
                             % (edge_list(fl.edges_of(exp) - fl.edges_of(MT)),
                                edge_list(fl.edges_of(MT) - fl.edges_of(exp))), cs)
        recu.ok()
        if not inplace:
            self_watch(call, flat, "recurrent")

    attach.wrap_attr(run, FSA, "recurrent", hook_recurrent, pre=pre_op)

    def hook_rlp(call, state):
        if state is None:
            return
        M, prob, flat = state
        if call.exc is not None:
            return
        b = call.bound()
        root, ties = b.get("root"), bool(b.get("edge_ties"))
        if not domain(shortest, M, prob, flat, need_start=(root is None)):
            return
        if root is None:
            root = M.starts[0]
        if not fl.hashable(root) or root not in M.vertices:
            return shortest.skip("root is not a vertex")
        MH = result_model(shortest, "shortest-paths", call.result, call)
        if MH is None:
            return
        dist, keep = fl.shortest_edges(M, root)
        got = fl.edges_of(MH)
        cs = case_of(call, {"root": repr(root), "edge_ties": ties,
                            "distances": {repr(k): v for k, v in dist.items()}})
        rt = "edge_ties:%s/route:%s" % (ties, route())
        if got - keep:
            cs.update(extra=edge_list(got - keep))
            return shortest.fail("shortest-paths/keeps-non-shortest-edge/" + rt,
                                 "remove_long_paths(root=%r) keeps %r, not on a shortest path from "
                                 "the root" % (root, edge_list(got - keep)), cs)
        if ties:
            if keep - got:
                cs.update(missing=edge_list(keep - got))
                return shortest.fail("shortest-paths/missing-shortest-edge/" + rt,
                                     "remove_long_paths(root=%r) drops %r, which lie on shortest "
                                     "paths from the root" % (root, edge_list(keep - got)), cs)
        else:
            parents = collections.defaultdict(set)
            for (v, w, _lab) in got:
                parents[w].add(v)
            want = set(dist) - {root}
            if set(parents) != want or any(len(p) != 1 for p in parents.values()):
                return shortest.fail("shortest-paths/not-a-bfs-tree/" + rt,
                                     "remove_long_paths(root=%r, edge_ties=False): vertices with a "
                                     "parent %r, reachable non-root vertices %r, parents %r"
                                     % (root, sorted(parents, key=repr)[:6], sorted(want, key=repr)[:6],
                                        {repr(k): sorted(map(repr, v)) for k, v in list(parents.items())[:4]}),
                                     cs)
        if MH.vertices != M.vertices:
            shortest.diag("vertex set of the result differs from the original's")
        shortest.ok()
        self_watch(call, flat, "remove_long_paths")

    attach.wrap_attr(run, FSA, "remove_long_paths", hook_rlp, pre=pre_op)


# ---------------------------------------------------------------------------
# workload machinery

class Stop(Exception):
    """a violation was recorded for this automaton: stop using it (a defect
    may have corrupted it, later events would only be echoes)."""


def lib(run, mon, op, thunk, expected=()):
    """run a library call of an in-domain case; an exception other than the
    documented ones is a violation of monitor `mon` (and stops the case)."""
    try:
        return thunk()
    except expected as e:
        return e
    except Exception as e:
        if core.raised_in_harness(e.__traceback__):
            raise
        run.monitor(mon).fail(
            "%s/exception:%s/%s/route:%s" % (mon, type(e).__name__, op, route()),
            "%s raised %s: %s on an in-domain automaton" % (op, type(e).__name__, str(e)[:160]),
            tb=traceback.format_exc())
        raise Stop()


def check(run, v0):
    if nviol(run) != v0:
        raise Stop()


def arg_form(w, single, flip):
    """word tuple -> what is passed to the library: a string (single-character
    labels only) or a list of labels."""
    if single and flip:
        return fl.concat(w)
    return list(w)


FOREIGN = {1: "z", 2: "zz", 3: "zzz", 4: "zzzz"}


def queries(run, rng, F, M, alphabet, Lw, explicit_start=None, all_starts=False,
            sample=None):
    """walk queries for every word up to length Lw over `alphabet` (+ a foreign
    label of the same length), then the library-vs-library agreement."""
    fsa = fsa_build.fsamod()
    v0 = nviol(run)
    agree = run.monitor("agreement")
    width = len(alphabet[0]) if alphabet else 1
    single = all(len(x) == 1 for x in alphabet) and width == 1
    letters = list(alphabet) + [FOREIGN.get(width, "z" * width)]
    s0 = explicit_start if explicit_start is not None else M.starts[0]
    kw = {} if explicit_start is None else {"start_vertex": explicit_start}
    words = list(fl.all_words(letters, Lw))
    if sample is not None and len(words) > sample:
        idx = sorted(rng.permutation(len(words))[:sample])
        words = [words[i] for i in idx]
        # always include the accepted words and one-letter extensions of them
        acc = [w for (w, _v) in fl.language(M, min(Lw, 3), s0)]
        words += acc[:sample]
        words += [w + (letters[-1],) for w in acc[:20]]
    ends = {}
    for n, w in enumerate(words):
        a = arg_form(w, single, n % 2 == 0)
        r = lib(run, "walk", "accepts", lambda: F.accepts(a, **kw))
        check(run, v0)
        e = lib(run, "walk", "follow_word", lambda: F.follow_word(a, **kw),
                expected=(fsa.FSAException,))
        check(run, v0)
        followed = not isinstance(e, Exception)
        agree.require(bool(r) == followed,
                      "agreement/accepts-vs-follow_word/route:%s" % route(),
                      "accepts(%r)=%r but follow_word %s" % (a, r, "succeeds" if followed else "raises"))
        if r and followed:
            ends[w] = e
        if explicit_start is None:
            p = lib(run, "walk", "initial_accepted_subword", lambda: F.initial_accepted_subword(a))
            check(run, v0)
            q = lib(run, "walk", "initial_rejected_subword", lambda: F.initial_rejected_subword(a))
            check(run, v0)
            agree.require((p == fl.concat(w)) == bool(r),
                          "agreement/accepts-vs-accepted-prefix/route:%s" % route(),
                          "accepts(%r)=%r but initial_accepted_subword gives %r" % (a, r, p))
    if all_starts:
        vs = sorted(M.vertices, key=repr)
        for s in vs:
            for w in words[:40]:
                a = arg_form(w, single, True)
                lib(run, "walk", "accepts", lambda: F.accepts(a, start_vertex=s))
                lib(run, "walk", "follow_word", lambda: F.follow_word(a, start_vertex=s),
                    expected=(fsa.FSAException,))
            check(run, v0)
    if sample is None:
        # the enumerators list exactly the words the acceptance test accepts
        got = lib(run, "enumeration", "enumerate_words",
                  lambda: list(F.enumerate_words(Lw, with_states=True, **kw)))
        check(run, v0)
        try:
            gotc = collections.Counter(got)
        except TypeError:
            gotc = None
        expc = collections.Counter((fl.concat(w), e) for w, e in ends.items()
                                   if fl.hashable(e))
        agree.require(gotc == expc,
                      "agreement/enumerate_words-vs-accepts/route:%s" % route(),
                      "enumerate_words(%d, with_states=True) lists %r; the acceptance test and "
                      "follow_word give %r" % (Lw, sorted(got, key=repr)[:8], sorted(expc, key=repr)[:8]))
    check(run, v0)


def enumerations(run, rng, F, M, Le, explicit_start=None, starts="all"):
    v0 = nviol(run)
    if explicit_start is not None:
        cands = [explicit_start]
    elif starts == "all":
        cands = [None] + sorted(M.vertices, key=repr)
    else:
        vs = sorted(M.vertices, key=repr)
        cands = [None] + [vs[i] for i in rng.permutation(len(vs))[:starts]]
    for s in cands:
        s0 = M.starts[0] if s is None else s
        L = Le
        while L > 0 and fl.count_paths(M, L, s0, ENUM_CAP) > 4000:
            L -= 1
        for ws in (False, True):
            lib(run, "enumeration", "enumerate_words",
                lambda: list(F.enumerate_words(L, start_vertex=s, with_states=ws)))
            check(run, v0)
        n = int(rng.integers(0, L + 1))
        lib(run, "enumeration", "enumerate_fixed_length_paths",
            lambda: list(F.enumerate_fixed_length_paths(n, start_vertex=s,
                                                        with_states=bool(rng.integers(0, 2)))))
        check(run, v0)


def model_dict(M):
    d = {v: {} for v in M.vertices}
    for (v, lab), w in M.delta.items():
        d[v][lab] = w
    return d


def poke(run, rng, op, F, G, labels):
    """edit the result G of a non-in-place operation through the public API;
    the original F must not move."""
    watch = run.monitor("write-watch")
    before = fl.flat_views(F)
    vs = list(G.vertices())
    lab = (labels[0] if labels else "a")
    try:
        G.add_edges([("__new__", "__new2__", lab)])
        if vs:
            G.add_edges([(vs[0], "__new__", "__poke__")])
            G.delete_vertex(vs[int(rng.integers(0, len(vs)))])
    except Exception:
        return      # editing is C09's business; only the original is watched here
    d = fl.views_diff(before, fl.flat_views(F))
    if d is not None:
        watch.fail("write-watch/result-shares-state/after:%s/route:%s" % (op, route()),
                   "editing the result of %s changed the original's %s: %s" % (op, d[0], d[1]))
        raise Stop()
    watch.ok()


def operations(run, rng, F, M, labels, ks=(1, 2, 3, 4), roots="all", depth=0,
               Lw=3, renames=3):
    """every language operation on F (model M); derived automata are then
    queried in turn (depth 0 only)."""
    v0 = nviol(run)
    s = M.starts[0]
    base = route()
    nstates, nlab = len(M.vertices), len({l for (_v, l) in M.delta})
    # --- multiples (the library's product construction revisits vertices once
    # per incoming block: keep alphabet**k small)
    for k in ks:
        if k > 1 and max(1, nlab) ** k > 81:
            continue
        G = lib(run, "multiple", "automaton_multiple", lambda: F.automaton_multiple(k))
        check(run, v0)
        run.note_class("multiple", base, nstates, nlab, k)
        if k == 2:
            G2 = lib(run, "multiple", "even_automaton", lambda: F.even_automaton())
            check(run, v0)
            if fl.flat_views(G2) != fl.flat_views(G):
                run.monitor("agreement").fail(
                    "agreement/even_automaton-vs-multiple-2/route:%s" % base,
                    "even_automaton() and automaton_multiple(2) differ")
                raise Stop()
        R, edges = fl.multiple_spec(M, k, s)
        if depth == 0 and fl.concat_injective(edges) and len(edges) <= 400:
            dG = {v: {} for v in R}
            for (v, word), w in edges.items():
                dG[v][fl.concat(word)] = w
            MG = Model.from_label_dict(dG, [s])
            blocks = sorted({fl.concat(word) for (_v, word) in edges})
            _ctx["route"] = base + ">multiple"
            try:
                if not blocks:
                    # shallower than k: the language of the k-multiple is {''}
                    ws = lib(run, "multiple", "enumerate_words",
                             lambda: list(G.enumerate_words(2)))
                    run.monitor("multiple").require(
                        ws == [""], "multiple/shallow-automaton/enumerate_words/route:%s" % base,
                        "the %d-multiple of an automaton with no accepted word of length %d "
                        "enumerates %r instead of ['']" % (k, k, ws))
                if blocks and len(set(map(len, blocks))) == 1:
                    queries(run, rng, G, MG, blocks[:6], 2 if len(blocks) > 3 else 3,
                            sample=150 if len(blocks) > 3 else None)
                    enumerations(run, rng, G, MG, 3, starts=2)
                    if k == 2:
                        operations(run, rng, G, MG, blocks, ks=(1, 2), roots=2, depth=1,
                                   renames=1)
            except Stop:
                v0 = nviol(run)
            finally:
                _ctx["route"] = base
            poke(run, rng, "automaton_multiple", F, G, labels)
    # --- relabellings
    used = sorted({l for (_v, l) in M.delta})
    maps = []
    if used:
        perm = [used[i] for i in rng.permutation(len(used))]
        maps.append(dict(zip(used, perm)))                         # permutation of the alphabet
        maps.append({l: "x%d" % i for i, l in enumerate(used)})    # fresh multi-character names
        maps.append({l: chr(ord("p") + i) for i, l in enumerate(used)})
        if len(used) >= 2:
            sw = {l: l for l in used}
            sw[used[0]], sw[used[1]] = used[1], used[0]
            maps.append(sw)                                        # a transposition
        extra = dict(maps[0])
        extra["unused-label"] = used[0]                            # map larger than the alphabet
        maps.append(extra)
    else:
        maps.append({})
    for i, mp in enumerate(maps[:renames + 2]):
        G = lib(run, "relabel", "rename_generators",
                lambda: F.rename_generators(mp, inplace=False))
        check(run, v0)
        run.note_class("rename", base, nstates, nlab, i)
        C = copy.deepcopy(F)
        lib(run, "relabel", "rename_generators", lambda: C.rename_generators(mp, inplace=True))
        check(run, v0)
        if depth == 0 and i < 2 and used:
            MG = Model(M.vertices, {(v, mp[l]): w for (v, l), w in M.delta.items()}, M.starts)
            newlabs = sorted({mp[l] for l in used})
            _ctx["route"] = base + ">renamed"
            try:
                if len(set(map(len, newlabs))) == 1:
                    queries(run, rng, G, MG, newlabs, 3, sample=120)
                    queries(run, rng, C, MG, newlabs, 2, sample=60)
                enumerations(run, rng, G, MG, 3, starts=1)
            except Stop:
                v0 = nviol(run)
            finally:
                _ctx["route"] = base
        poke(run, rng, "rename_generators", F, G, labels)
    # --- recurrent
    G = lib(run, "recurrent", "recurrent", lambda: F.recurrent())
    check(run, v0)
    G1 = lib(run, "recurrent", "recurrent", lambda: F.recurrent(inplace=False))
    check(run, v0)
    C = copy.deepcopy(F)
    r = lib(run, "recurrent", "recurrent", lambda: C.recurrent(inplace=True))
    check(run, v0)
    ME = M.recurrent()
    run.note_class("recurrent", base, nstates, nlab, len(ME.vertices))
    if depth == 0 and ME.vertices:
        # the recurrent version is itself recurrent (idempotence, through the library)
        lib(run, "recurrent", "recurrent", lambda: G.recurrent())
        check(run, v0)
        if s in ME.vertices:
            _ctx["route"] = base + ">recurrent"
            try:
                MR = Model(ME.vertices, ME.delta, [s])
                labs = sorted({l for (_v, l) in MR.delta})
                if labs and len(set(map(len, labs))) == 1:
                    queries(run, rng, G, MR, labs, 3, sample=100)
                enumerations(run, rng, C, MR, 3, starts=1)
            except Stop:
                v0 = nviol(run)
            finally:
                _ctx["route"] = base
    poke(run, rng, "recurrent", F, G1, labels)
    # --- shortest paths
    vs = sorted(M.vertices, key=repr)
    if roots == "all":
        rts = [None] + vs
    else:
        rts = [None] + [vs[i] for i in rng.permutation(len(vs))[:roots]]
    for root in rts:
        for ties in (True, False):
            kw = {"edge_ties": ties}
            if root is not None or rng.random() < 0.5:
                kw["root"] = root
            H = lib(run, "shortest-paths", "remove_long_paths", lambda: F.remove_long_paths(**kw))
            check(run, v0)
            run.note_class("remove_long_paths", base, nstates, nlab, ties,
                           "root=start" if root is None else "root=other")
        if depth == 0 and root is None:
            dist, keep = fl.shortest_edges(M, s)
            MH = Model(M.vertices, {(v, l): w for (v, w, l) in keep}, [s])
            _ctx["route"] = base + ">shortest"
            try:
                H = lib(run, "shortest-paths", "remove_long_paths", lambda: F.remove_long_paths())
                labs = sorted({l for (_v, l) in MH.delta})
                if labs and len(set(map(len, labs))) == 1:
                    queries(run, rng, H, MH, labs, 3, explicit_start=s, sample=80)
                enumerations(run, rng, H, MH, 3, explicit_start=s)
                lib(run, "shortest-paths", "remove_long_paths", lambda: H.remove_long_paths(root=s))
                check(run, v0)
            except Stop:
                v0 = nviol(run)
            finally:
                _ctx["route"] = base
            poke(run, rng, "remove_long_paths", F, H, labels)
    # the original still answers as before all these operations
    check(run, v0)


def verify_build(run, F, M):
    """the automaton handed to the operations is the specified one (else the
    construction route itself is broken: C09's business, not judged here)."""
    MF, prob = fl.snapshot(F)
    if MF is None or MF.delta != M.delta or MF.vertices != M.vertices \
            or not fl.coherent(fl.flat_views(F)) or list(F.start_vertices) != list(M.starts):
        run.monitor("walk").skip("construction route did not produce the specified automaton (C09)")
        return False
    return True


def exercise(run, rng, d, start, labels, rt, Lw=4, Le=4, ks=(1, 2, 3, 4), roots="all",
             sample=None, all_starts=True, F=None, derived=True):
    """one automaton through everything.  derived=False: the operations are
    judged, but their results are not queried in turn."""
    M = Model.from_label_dict(d, [start])
    _ctx["route"] = rt
    case = {"route": rt, "label_dict": {repr(v): {l: repr(w) for l, w in nb.items()}
                                        for v, nb in d.items()}
            if len(d) <= 12 else "<%d states>" % len(d), "start": repr(start)}
    run.current_case = case
    try:
        if F is None:
            F = lib(run, "walk", "construct", lambda: fsa_build.build(rt, d, start, rng))
        if not verify_build(run, F, M):
            return
        feats = ",".join(sorted(fl.features(d, start)))
        if M.delta:
            run.note_class("automaton", rt, len(M.vertices), len(labels), feats)
        queries(run, rng, F, M, list(labels), Lw, sample=sample, all_starts=all_starts)
        enumerations(run, rng, F, M, Le, starts="all" if len(M.vertices) <= 6 else 3)
        operations(run, rng, F, M, list(labels), ks=ks, roots=roots,
                   depth=0 if derived else 1)
        # after everything: the automaton is still the specified one
        MF, prob = fl.snapshot(F)
        watch = run.monitor("write-watch")
        if MF is None or MF.delta != M.delta or MF.vertices != M.vertices:
            watch.fail("write-watch/automaton-changed-by-queries-and-operations/route:%s" % rt,
                       "after read-only queries and non-in-place operations the automaton differs "
                       "from its specification: %s" % (prob or "edge set changed"))
        else:
            watch.ok()
    except Stop:
        pass
    finally:
        _ctx["route"] = "ambient"


# ---------------------------------------------------------------------------
# workloads

DENSE = [(3, "ab"), (2, "abc"), (2, "ab")]
DENSE_SIZES = [fl.dense_total(n, len(l)) for n, l in DENSE]
NR = len(fsa_build.ROUTES)
DENSE_CASES = sum(DENSE_SIZES) * NR
BLOCK = 16


def fresh_states(d, start, kind):
    """the same automaton with state names that are equal but never the same
    object wherever they occur (keys, targets, start): tuples, ints above 256,
    strings assembled at run time.  CPython caches small ints and source
    literals, so `is` and `==` agree on those and only on those (seeded change
    C10-r6-1: `head is not vertex` in delete_vertex, reached through recurrent())."""
    def mk(x):
        if kind == "tuple":
            return (x, "q")
        if kind == "big-int":
            return int(str(1000 + int(x))) if isinstance(x, int) else (x, 1000)
        return "".join(["s", str(x)])
    return {mk(v): {lab: mk(t) for lab, t in row.items()} for v, row in d.items()}, mk(start)


FRESH_KINDS = ("tuple", "big-int", "built-string")


def graft_dead_end(rng, d, labels):
    """the same table plus a dead-end vertex (or a dead-end chain of two) that
    one existing vertex reaches through two or three PARALLEL edges, that vertex
    keeping a self-loop when a label is left, so that it survives pruning while
    several of its transitions lead into a pruned vertex.  Random targets almost
    never produce "survivor with parallel edges into a dead end" (seeded change
    C10-r8-3: delete_vertex stops after the first transition it removes from
    each in-neighbour's row)."""
    if len(labels) < 2 or not d:
        return d
    d = {v: dict(row) for v, row in d.items()}
    names = list(d)
    u = names[int(rng.integers(0, len(names)))]
    if all(isinstance(v, int) for v in names):
        z, z2 = max(names) + 1, max(names) + 2
    elif all(isinstance(v, str) for v in names):
        z, z2 = "zdead", "zdead2"
    else:
        return d
    npar = 2 if len(labels) == 2 else int(rng.integers(2, len(labels)))
    order = [labels[i] for i in rng.permutation(len(labels))]
    for lab in order[:npar]:
        d[u][lab] = z
    if len(order) > npar:
        d[u][order[npar]] = u
    d[z] = {}
    if rng.random() < 0.5:
        d[z][labels[0]] = z2
        d[z2] = {}
    return d


def dense_case(run, rng, code):
    """code -> (table, route).  Every table meets every route; the results of
    the operations are re-queried for one route per table (rotating)."""
    r = code % NR
    code //= NR
    for (n, labs), size in zip(DENSE, DENSE_SIZES):
        if code < size:
            d = fl.dense_decode(code, n, labs)
            full = (code % NR == r)
            start = 0
            if code % 3 == 1:
                # every third table with state names that are never the same object
                d, start = fresh_states(d, 0, FRESH_KINDS[(code // 3) % 3])
            exercise(run, rng, d, start, list(labs), fsa_build.ROUTES[r], Lw=4 if full else 3,
                     Le=4 if full else 3, derived=full, all_starts=full)
            return
        code -= size


def wl_dense_sample(run, rng, idx):
    code = int(rng.integers(0, DENSE_CASES))
    if idx % 2 == 0:        # every other case with re-queried results
        code = (code // NR) * NR + (code // NR) % NR
    dense_case(run, rng, code)
    if idx < 2:
        run.sample({"dense_code": code, "case": run.current_case})


def wl_dense_all(run, rng, idx):
    for code in range(idx * BLOCK, min((idx + 1) * BLOCK, DENSE_CASES)):
        dense_case(run, rng, code)
    run.extra["dense_automaton_route_pairs"] = run.extra.get("dense_automaton_route_pairs", 0) + \
        (min((idx + 1) * BLOCK, DENSE_CASES) - idx * BLOCK)


def wl_small_tables(run, rng, idx):
    """sampled from the larger small scopes: 3x3, 4x2, 4x3."""
    n, labs = [(3, "abc"), (4, "ab"), (4, "abc")][idx % 3]
    tot = fl.dense_total(n, len(labs))
    code = int(rng.integers(0, tot))
    d = fl.dense_decode(code, n, labs)
    start = int(rng.integers(0, n))
    if idx % 4 == 2:
        d = graft_dead_end(rng, d, list(labs))
    if idx % 2 == 1:
        d, start = fresh_states(d, start, FRESH_KINDS[(idx // 2) % 3])
    exercise(run, rng, d, start, list(labs), fsa_build.ROUTES[int(rng.integers(0, NR))],
             Lw=3 if len(labs) == 3 else 4, Le=4, derived=(idx % 2 == 0))


def wl_random(run, rng, idx):
    d, start, labels = fl.random_automaton(rng, max_states=10)
    if idx % 4 in (2, 3):
        d = graft_dead_end(rng, d, list(labels))
    if idx % 2 == 1:
        d, start = fresh_states(d, start, FRESH_KINDS[(idx // 2) % 3])
    rt = fsa_build.ROUTES[idx % NR]
    n = len(labels)
    exercise(run, rng, d, start, labels, rt, Lw={1: 5, 2: 4, 3: 4, 4: 3}[n], Le=4,
             ks=(1, 2, 3, 4) if n <= 3 else (1, 2, 3), roots="all",
             derived=(idx % 3 != 2))
    if idx < 3:
        run.sample(run.current_case)


def wl_builtin(run, rng, idx):
    fsa = fsa_build.fsamod()
    files = sorted(fsa.list_builtins())
    names = files + ["free:a", "free:ab", "free:abc"]
    name = names[idx % len(names)]
    if not name.startswith("free:") and not os.path.exists(
            os.path.join(core.REPO, "geometry_tools", "automata", "builtin", name)):
        return
    if name.startswith("free:"):
        F = fsa.free_automaton(name[5:])
    else:
        F = fsa.load_builtin(name)
    run_loaded(run, rng, F, "free" if name.startswith("free:") else "builtin", name)


def run_loaded(run, rng, F, rt, name):
    M, prob = fl.snapshot(F)
    run.current_case = {"automaton": name}
    if M is None or len(M.starts) != 1:
        run.monitor("walk").skip("loaded automaton is not in the domain")
        return
    d = model_dict(M)
    labels = sorted({l for (_v, l) in M.delta})
    big = len(M.vertices) > 40 or len(labels) > 4
    huge = len(M.vertices) > 100 or len(labels) > 8
    quick = run.tier == "quick"
    if huge:
        ks = (1,) if quick else (1, 2)
    elif big:
        ks = (1, 2) if quick else (1, 2, 3)
    else:
        ks = (1, 2, 3, 4)
    exercise(run, rng, d, M.starts[0], labels, rt, F=F,
             Lw=2 if len(labels) > 4 else 3, Le=3 if big else 4, ks=ks,
             roots=1 if huge else 3, sample=60 if (big and quick) else 150,
             all_starts=False, derived=not (huge and quick))
    run.note_class("loaded", name)


COXETER = [(2, 3, 7), (3, 3, 4), (2, 4, 5), (3, 3, 3), (2, 3, 0), (0, 0, 0),
           (2, 2, 5), (4, 4, 4), (2, 6, 6), (3, 0, 5)]


def wl_coxeter(run, rng, idx):
    from geometry_tools import coxeter
    tri = COXETER[idx % len(COXETER)]
    shortlex = bool((idx // 2) % 2 == 0)
    even = bool(idx % 3 == 2)
    run.current_case = {"triangle": list(tri), "shortlex": shortlex, "even_length": even}
    _ctx["route"] = "coxeter-build"
    try:
        G = coxeter.TriangleGroup(tri)
        F = G.automaton(shortlex=shortlex, even_length=even)
    except Exception:
        # building Coxeter automata is C07's business
        run.monitor("walk").skip("Coxeter automaton could not be built")
        return
    name = "coxeter:%s:%s:%s" % ("-".join(map(str, tri)), "shortlex" if shortlex else "geodesic",
                                 "even" if even else "all")
    run_loaded(run, rng, F, "coxeter-even" if even else "coxeter", name)


def wl_multichar(run, rng, idx):
    """automata whose labels are multi-character generator names of equal
    length ('s1','s2',...), words passed as label lists."""
    d, start, labels = fl.random_automaton(rng, max_states=6, alphabet=("s1", "s2", "t1"))
    exercise(run, rng, d, start, labels, fsa_build.ROUTES[idx % NR], Lw=3, Le=3, ks=(1, 2))


WORKLOADS = [
    Workload("dense-sample", wl_dense_sample, quick=56, thorough=0),
    Workload("dense-all", wl_dense_all, quick=0, thorough=(DENSE_CASES + BLOCK - 1) // BLOCK),
    Workload("small-tables", wl_small_tables, quick=24, thorough=2000),
    Workload("random", wl_random, quick=36, thorough=3000),
    Workload("multichar-labels", wl_multichar, quick=8, thorough=400),
    Workload("builtin", wl_builtin, quick=21, thorough=84),
    Workload("coxeter", wl_coxeter, quick=6, thorough=40),
]
EXHAUSTIVE = {"quick": False, "thorough": False}
