"""Extracts the ```python blocks of the repository's documentation (front page,
module docstrings) and examples/*.py and runs them as programs (Agg backend).
Blocks of one document share a namespace, in order (later blocks use names
defined by earlier ones).  Used by C12 ("the README and docstring examples run")
and as an end-to-end workload elsewhere."""
import os
import re
import ast

from . import core

DOCS = ["README.md", "geometry_tools/frontpage_doc.md", "geometry_tools/hyperbolic.py",
        "geometry_tools/projective.py", "geometry_tools/representation.py",
        "geometry_tools/drawtools.py", "geometry_tools/automata/__init__.py",
        "geometry_tools/automata/fsa.py", "geometry_tools/coxeter.py",
        "geometry_tools/complex_projective.py", "geometry_tools/lie/__init__.py"]

# blocks that need things outside the sandbox (files produced by kbmag, Sage,
# an interactive display)
SKIP_IF = ("load_kbmag_file(", "from sage", "import sage", "plt.show()",
           "%matplotlib")


def blocks(rel):
    path = os.path.join(core.REPO, rel)
    if not os.path.exists(path):
        return []
    text = open(path).read()
    if rel.endswith(".py"):
        try:
            text = ast.get_docstring(ast.parse(text), clean=True) or ""
        except SyntaxError:
            return []
    out = []
    for m in re.finditer(r"```python\n(.*?)```", text, re.S):
        code = m.group(1)
        # strip a common indentation
        lines = code.splitlines()
        ind = min((len(l) - len(l.lstrip()) for l in lines if l.strip()), default=0)
        out.append("\n".join(l[ind:] for l in lines))
    return out


def programs():
    """[(document, [block, ...])] plus the example scripts."""
    progs = []
    for rel in DOCS:
        bl = blocks(rel)
        if bl:
            progs.append((rel, bl))
    exdir = os.path.join(core.REPO, "examples")
    if os.path.isdir(exdir):
        for fn in sorted(os.listdir(exdir)):
            if fn.endswith(".py"):
                progs.append(("examples/" + fn, [open(os.path.join(exdir, fn)).read()]))
    return progs


SHRINK = [(re.compile(r"(automaton_accepted\(\s*\w+\s*,\s*)15(\s*\))"), r"\g<1>6\g<2>")]


def run_program(doc, bl, shrink=False):
    """-> list of (block index, status, detail); status in ok/skipped/error.
    With shrink=True (quick tier) the tiling depth literal 15 of the tutorial's
    `automaton_accepted(fsa, 15)` calls is replaced by 6: same program and code
    paths, ~100x fewer tiles.  The thorough tier runs the text verbatim."""
    import matplotlib
    matplotlib.use("Agg")
    import matplotlib.pyplot as plt
    ns = {"__name__": "__gtmon_doc__"}
    res = []
    for i, code in enumerate(bl):
        if any(s in code for s in SKIP_IF):
            res.append((i, "skipped", "needs external resources"))
            continue
        if shrink:
            for rx, rep in SHRINK:
                code = rx.sub(rep, code)
        try:
            exec(compile(code, "%s[block %d]" % (doc, i), "exec"), ns)
            res.append((i, "ok", ""))
        except Exception as e:
            import traceback
            res.append((i, "error", "%s: %s\n%s" % (type(e).__name__, e,
                                                     traceback.format_exc()[-1500:])))
        finally:
            plt.close("all")
    return res
