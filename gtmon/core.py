"""Core plumbing: loading the code under test, monitors, verdicts, evidence,
known findings, replay files, seeds.  See DESIGN.md section 2.

Nothing in here imports geometry_tools at module import time; call
``load_repo()`` first.
"""
import os
import sys
import json
import time
import zlib
import traceback
import fnmatch
import threading

VERIF = os.path.dirname(os.path.dirname(os.path.abspath(__file__)))
REPO = os.path.abspath(os.environ.get("VERIF_REPO", "/repo"))

EXIT_HELD = 0
EXIT_VIOLATION = 1
EXIT_INCONCLUSIVE = 2
EXIT_HARNESS = 3

# ---------------------------------------------------------------------------
# loading the code under test


def load_repo():
    """Put the repository's *current working tree* first on sys.path and
    import it.  Returns the geometry_tools package."""
    os.environ.setdefault("OPENBLAS_NUM_THREADS", "1")
    os.environ.setdefault("OMP_NUM_THREADS", "1")
    os.environ.setdefault("MPLBACKEND", "Agg")
    sys.dont_write_bytecode = True
    if sys.path[0] != REPO:
        sys.path.insert(0, REPO)
    import geometry_tools
    where = os.path.abspath(geometry_tools.__file__)
    if not where.startswith(REPO + os.sep):
        raise RuntimeError("geometry_tools imported from %s, not from %s"
                           % (where, REPO))
    return geometry_tools


# ---------------------------------------------------------------------------
# small helpers


def jsonable(obj, depth=0):
    """Best-effort conversion of a case description to JSON-serialisable
    data (arrays become nested lists, complex numbers strings)."""
    import numpy as np
    if depth > 8:
        return repr(obj)[:200]
    if obj is None or isinstance(obj, (bool, int, str)):
        return obj
    if isinstance(obj, float):
        if obj != obj or obj in (float("inf"), float("-inf")):
            return repr(obj)
        return obj
    if isinstance(obj, complex):
        return repr(obj)
    if isinstance(obj, np.generic):
        return jsonable(obj.item(), depth + 1)
    if isinstance(obj, np.ndarray):
        if obj.dtype == object:
            return {"__ndarray_object__": [jsonable(x, depth + 1)
                                           for x in obj.ravel().tolist()],
                    "shape": list(obj.shape)}
        if obj.size > 400:
            return {"__ndarray_summary__": True, "shape": list(obj.shape),
                    "dtype": str(obj.dtype),
                    "head": jsonable(obj.ravel()[:20], depth + 1)}
        if np.iscomplexobj(obj):
            return {"__ndarray_complex__": True, "shape": list(obj.shape),
                    "re": obj.real.tolist(), "im": obj.imag.tolist()}
        return jsonable(obj.tolist(), depth + 1)
    if isinstance(obj, dict):
        return {str(k): jsonable(v, depth + 1) for k, v in obj.items()}
    if isinstance(obj, (list, tuple, set, frozenset)):
        return [jsonable(v, depth + 1) for v in obj]
    return repr(obj)[:300]


def lib_frame_of(tb):
    """Innermost traceback frame that lies inside the repository's package
    -> 'module.function', or None if the traceback never enters it."""
    found = None
    pkg = os.path.join(REPO, "geometry_tools") + os.sep
    for fs in traceback.extract_tb(tb):
        if os.path.abspath(fs.filename).startswith(pkg):
            mod = os.path.splitext(os.path.basename(fs.filename))[0]
            found = "%s.%s" % (mod, fs.name)
    return found


def raised_in_harness(tb):
    """True when the innermost frame of the traceback is gtmon's own code
    (and the traceback never went through the library after that)."""
    frames = traceback.extract_tb(tb)
    if not frames:
        return True
    pkg = os.path.join(REPO, "geometry_tools") + os.sep
    for fs in frames:
        if os.path.abspath(fs.filename).startswith(pkg):
            return False
    return True


# ---------------------------------------------------------------------------
# monitors


class Monitor:
    """Counters and verdict for one oracle.  `deciding` monitors must observe
    at least `min_events` in-domain events or the run is inconclusive."""

    def __init__(self, run, name, min_events=1, deciding=True, doc=""):
        self.run = run
        self.name = name
        self.min_events = min_events
        self.deciding = deciding
        self.doc = doc
        self.evals = 0          # in-domain, judged
        self.skipped = 0        # out-of-domain, counted not judged
        self.skip_reasons = {}
        self.diags = {}
        self.fails = 0
        self.max_residual = 0.0
        self.suspicious = 0

    # -- judged events
    def ok(self, residual=None):
        self.evals += 1
        if residual is not None:
            self._res(residual)

    def _res(self, residual):
        try:
            r = float(residual)
        except Exception:
            return
        if r == r and r > self.max_residual:
            self.max_residual = r

    def skip(self, reason="out_of_domain"):
        self.skipped += 1
        self.skip_reasons[reason] = self.skip_reasons.get(reason, 0) + 1

    def diag(self, what):
        self.diags[what] = self.diags.get(what, 0) + 1

    def fail(self, key, what, case=None, residual=None, tb=None):
        self.evals += 1
        self.fails += 1
        self.run._violation(self, key, what, case, residual, tb)
        return False

    def judge(self, residual, tol, key, what, case=None, suspicious=None):
        """in-domain event with a numeric residual: ok iff finite and <= tol."""
        try:
            r = float(residual)
        except Exception:
            r = float("nan")
        if r == r and r <= tol:
            self.evals += 1
            self._res(r)
            if suspicious is None:
                suspicious = tol * 1e-2
            if r > suspicious:
                self.suspicious += 1
            return True
        return self.fail(key, "%s (residual %r > tol %g)" % (what, r, tol),
                         case, residual=r)

    def require(self, cond, key, what, case=None):
        if cond:
            self.evals += 1
            return True
        return self.fail(key, what, case)

    def summary(self):
        d = {"evaluations": self.evals, "out_of_domain": self.skipped,
             "violations": self.fails, "max_residual": self.max_residual,
             "deciding": self.deciding}
        if self.suspicious:
            d["suspicious"] = self.suspicious
        if self.skip_reasons:
            d["out_of_domain_reasons"] = dict(self.skip_reasons)
        if self.diags:
            d["diagnostics"] = dict(self.diags)
        return d


class KnownFindings:
    def __init__(self, path=None):
        self.known = []   # (prop, keypattern, text)
        self.fixed = []
        path = path or os.path.join(VERIF, "KNOWN_FINDINGS.txt")
        if not os.path.exists(path):
            return
        for line in open(path):
            line = line.strip()
            if not line or line.startswith("#"):
                continue
            kind, _, rest = line.partition(":")
            kind = kind.strip()
            head, _, text = rest.partition("::")
            fields = dict(tok.split("=", 1) for tok in head.split()
                          if "=" in tok)
            if kind == "known":
                self.known.append((fields.get("property"), fields.get("key"),
                                   text.strip()))
            elif kind == "fixed":
                self.fixed.append((fields.get("property"), fields.get("key"),
                                   text.strip()))

    def match(self, prop, key):
        for p, k, text in self.known:
            if p == prop and k is not None and k == key:
                return text
        return None


class HarnessError(Exception):
    pass


class Run:
    MAX_WITNESSES_PER_KEY = 3
    MAX_SAMPLES = 12

    def __init__(self, prop, tier="quick", seed=0, shard=(0, 1)):
        self.prop = prop
        self.tier = tier
        self.seed = int(seed)
        self.shard = shard
        self.monitors = {}
        self.violations = {}      # key -> {"count", "monitor", "witnesses"}
        self.classes = {}         # signature string -> count
        self.samples = []
        self.harness_errors = []
        self.inconclusive = []
        self.extra = {}           # free-form additions to coverage
        self.cases_run = {}       # workload -> count
        self.current = None       # (workload, index)
        self.current_case = None  # jsonable description set by the workload
        self.t0 = time.time()
        self.suspend = threading.local()
        self.logs = {}            # named event logs for offline checkers

    # -- monitors / classes / samples
    def monitor(self, name, min_events=1, deciding=True, doc=""):
        if name not in self.monitors:
            self.monitors[name] = Monitor(self, name, min_events, deciding, doc)
        return self.monitors[name]

    def note_class(self, *sig):
        s = "|".join(str(x) for x in sig)
        self.classes[s] = self.classes.get(s, 0) + 1

    def sample(self, obj, force=False):
        if force or len(self.samples) < self.MAX_SAMPLES:
            self.samples.append(jsonable(obj))

    def log(self, name):
        return self.logs.setdefault(name, [])

    # -- seeds
    def rng(self, workload, index):
        import numpy as np
        ss = np.random.SeedSequence([self.seed & 0xFFFFFFFF,
                                     zlib.crc32(workload.encode()),
                                     int(index)])
        return np.random.default_rng(ss)

    # -- suspension of monitoring while a monitor calls library code
    @property
    def suspended(self):
        return getattr(self.suspend, "n", 0) > 0

    class _Susp:
        def __init__(self, run):
            self.run = run

        def __enter__(self):
            self.run.suspend.n = getattr(self.run.suspend, "n", 0) + 1

        def __exit__(self, *a):
            self.run.suspend.n -= 1

    def quiet(self):
        return Run._Susp(self)

    # -- violations
    def _violation(self, mon, key, what, case, residual, tb):
        if case is None:
            case = self.current_case
        ent = self.violations.setdefault(
            key, {"count": 0, "monitor": mon.name, "witnesses": []})
        ent["count"] += 1
        if len(ent["witnesses"]) < self.MAX_WITNESSES_PER_KEY:
            w = {"what": what, "workload": None, "index": None,
                 "case": jsonable(case)}
            if self.current is not None:
                w["workload"], w["index"] = self.current
            if residual is not None:
                w["residual"] = jsonable(residual)
            if tb:
                w["traceback"] = tb[-3000:]
            ent["witnesses"].append(w)

    def harness_error(self, where, exc=None):
        tb = traceback.format_exc() if exc is None else "".join(
            traceback.format_exception(type(exc), exc, exc.__traceback__))
        if len(self.harness_errors) < 10:
            self.harness_errors.append({"where": where, "traceback": tb[-4000:],
                                        "case": self.current})

    def mark_inconclusive(self, reason):
        if reason not in self.inconclusive:
            self.inconclusive.append(reason)

    # -- partial results (for shards) -------------------------------------
    def partial(self):
        return {
            "prop": self.prop, "tier": self.tier, "seed": self.seed,
            "shard": list(self.shard),
            "monitors": {k: dict(m.summary(), min_events=m.min_events)
                         for k, m in self.monitors.items()},
            "violations": self.violations,
            "classes": self.classes,
            "samples": self.samples,
            "harness_errors": self.harness_errors,
            "inconclusive": self.inconclusive,
            "extra": self.extra,
            "cases_run": self.cases_run,
            "wall_s": time.time() - self.t0,
        }


def merge_partials(parts):
    out = {"monitors": {}, "violations": {}, "classes": {}, "samples": [],
           "harness_errors": [], "inconclusive": [], "extra": {},
           "cases_run": {}, "wall_s": 0.0}
    for p in parts:
        for k, m in p["monitors"].items():
            o = out["monitors"].setdefault(k, {
                "evaluations": 0, "out_of_domain": 0, "violations": 0,
                "max_residual": 0.0, "deciding": m["deciding"],
                "min_events": m.get("min_events", 1)})
            o["evaluations"] += m["evaluations"]
            o["out_of_domain"] += m["out_of_domain"]
            o["violations"] += m["violations"]
            o["max_residual"] = max(o["max_residual"], m["max_residual"])
            if "suspicious" in m:
                o["suspicious"] = o.get("suspicious", 0) + m["suspicious"]
            for fld in ("out_of_domain_reasons", "diagnostics"):
                if fld in m:
                    d = o.setdefault(fld, {})
                    for kk, vv in m[fld].items():
                        d[kk] = d.get(kk, 0) + vv
        for key, ent in p["violations"].items():
            o = out["violations"].setdefault(
                key, {"count": 0, "monitor": ent["monitor"], "witnesses": []})
            o["count"] += ent["count"]
            for w in ent["witnesses"]:
                if len(o["witnesses"]) < Run.MAX_WITNESSES_PER_KEY:
                    o["witnesses"].append(w)
        for s, c in p["classes"].items():
            out["classes"][s] = out["classes"].get(s, 0) + c
        for s in p["samples"]:
            if len(out["samples"]) < Run.MAX_SAMPLES:
                out["samples"].append(s)
        out["harness_errors"].extend(p["harness_errors"])
        for r in p["inconclusive"]:
            if r not in out["inconclusive"]:
                out["inconclusive"].append(r)
        for k, v in p["extra"].items():
            if isinstance(v, (int, float)) and not isinstance(v, bool):
                out["extra"][k] = out["extra"].get(k, 0) + v
            elif isinstance(v, dict):
                d = out["extra"].setdefault(k, {})
                for kk, vv in v.items():
                    if isinstance(vv, (int, float)) and not isinstance(vv, bool):
                        d[kk] = d.get(kk, 0) + vv
                    elif isinstance(vv, list):
                        cur = d.setdefault(kk, [])
                        if isinstance(cur, list):
                            for x in vv:
                                if x not in cur:
                                    cur.append(x)
                    else:
                        d.setdefault(kk, vv)
            else:
                out["extra"].setdefault(k, v)
        for k, v in p["cases_run"].items():
            out["cases_run"][k] = out["cases_run"].get(k, 0) + v
        out["wall_s"] = max(out["wall_s"], p["wall_s"])
    return out


def conclude(prop, tier, seed, merged, rule, wall_s, assumptions=(),
             exhaustive=None, evidence_dir=None, replay_dir=None, quiet=False):
    """Turn merged partial results into verdict + evidence file + stdout lines.
    Returns the exit code."""
    kf = KnownFindings()
    evidence_dir = evidence_dir or os.path.join(VERIF, "evidence")
    replay_dir = replay_dir or os.path.join(VERIF, "replays")
    os.makedirs(evidence_dir, exist_ok=True)

    lines = []
    new_keys = []
    known_hit = {}
    for key, ent in sorted(merged["violations"].items()):
        text = kf.match(prop, key)
        if text is not None:
            known_hit[key] = {"count": ent["count"], "text": text}
            lines.append("KNOWN-FINDING: property=%s %s [key=%s, %d events]"
                         % (prop, text, key, ent["count"]))
        else:
            new_keys.append(key)

    replay_paths = []
    if new_keys:
        os.makedirs(replay_dir, exist_ok=True)
        for n, key in enumerate(new_keys):
            ent = merged["violations"][key]
            path = os.path.join(replay_dir, "%s-%s-%d-%d.json"
                                % (prop, tier, seed, n))
            with open(path, "w") as f:
                json.dump({"property": prop, "tier": tier, "seed": seed,
                           "key": key, "monitor": ent["monitor"],
                           "count": ent["count"],
                           "witnesses": ent["witnesses"]}, f, indent=1)
            replay_paths.append(path)
            w0 = ent["witnesses"][0] if ent["witnesses"] else {}
            lines.append("VIOLATION property=%s replay=%s" % (prop, path))
            lines.append("  key=%s monitor=%s events=%d :: %s"
                         % (key, ent["monitor"], ent["count"],
                            str(w0.get("what"))[:400]))

    # inconclusive reasons
    inconclusive = list(merged["inconclusive"])
    for name, m in merged["monitors"].items():
        if m["deciding"] and m["evaluations"] < m.get("min_events", 1):
            inconclusive.append("monitor %s saw %d in-domain events (< %d)"
                                % (name, m["evaluations"], m.get("min_events", 1)))
    harness = merged["harness_errors"]

    evaluations = sum(m["evaluations"] for m in merged["monitors"].values())
    coverage = {
        "evaluations": int(evaluations),
        "distinct_nontrivial": len(merged["classes"]),
        "rule": rule,
        "samples": merged["samples"][:Run.MAX_SAMPLES] or ["<none>"],
        "monitors": merged["monitors"],
        "cases_run": merged["cases_run"],
        "input_classes": dict(sorted(merged["classes"].items())[:400]),
        "known_findings_matched": known_hit,
        "new_violation_keys": new_keys,
        "inconclusive_reasons": inconclusive,
    }
    # per class tag (first field of a signature): the distinct values seen in
    # every further field -- makes a class that a tier never reaches visible
    fields = {}
    for sig in merged["classes"]:
        parts = sig.split("|")
        slot = fields.setdefault(parts[0], [])
        for i, v in enumerate(parts[1:]):
            while len(slot) <= i:
                slot.append(set())
            if len(slot[i]) < 40:
                slot[i].add(v)
    coverage["class_field_values"] = {k: [sorted(x)[:40] for x in v] for k, v in sorted(fields.items())}
    if exhaustive is not None:
        coverage["exhaustive"] = bool(exhaustive)
    coverage.update(merged["extra"])
    verdict = "held"
    code = EXIT_HELD
    if harness:
        verdict, code = "harness_error", EXIT_HARNESS
    if inconclusive and code == EXIT_HELD:
        verdict, code = "inconclusive", EXIT_INCONCLUSIVE
    if new_keys:
        verdict, code = "violated", EXIT_VIOLATION
    coverage["verdict"] = verdict
    ev = {
        "property_id": prop, "tier": tier, "seed": int(seed),
        "level": "exploration", "coverage": coverage,
        "assumptions": list(assumptions),
        "wall_s": round(float(wall_s), 3),
        "violations": len(new_keys),
    }
    with open(os.path.join(evidence_dir, prop + ".json"), "w") as f:
        json.dump(ev, f, indent=1, sort_keys=True)
        f.write("\n")

    if not quiet:
        for ln in lines:
            print(ln)
        for h in harness[:3]:
            print("HARNESS-ERROR property=%s where=%s" % (prop, h["where"]))
            print(h["traceback"])
        if code == EXIT_INCONCLUSIVE:
            for r in inconclusive:
                print("INCONCLUSIVE property=%s reason=%s" % (prop, r))
        mons = ", ".join("%s=%d" % (k, m["evaluations"])
                         for k, m in sorted(merged["monitors"].items()))
        print("%s %s tier=%s seed=%d verdict=%s evaluations=%d classes=%d "
              "wall=%.1fs" % (prop, "OK" if code == 0 else "NOT-OK", tier, seed,
                              verdict, evaluations, len(merged["classes"]),
                              wall_s))
        print("  monitors: " + mons)
    return code
