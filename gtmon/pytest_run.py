"""Runs (part of) the repository's own test-suite in-process, so that the
monitors already attached to the imported library see every object the suite
builds (DESIGN.md section 3, 'repo test-suite under monitors').  The tests'
own pass/fail status is not a verdict of ours (three fail at baseline); it is
reported in the evidence only."""
import io
import os
import sys
import contextlib

from . import core


class _Collector:
    def __init__(self):
        self.outcomes = {}

    def pytest_runtest_logreport(self, report):
        if report.when == "call" or (report.when == "setup" and report.outcome != "passed"):
            self.outcomes[report.nodeid] = report.outcome


def run_repo_tests(run, files, on_test=None):
    import pytest
    tdir = os.path.join(core.REPO, "testing")
    paths = [os.path.join(tdir, f) for f in files if os.path.exists(os.path.join(tdir, f))]
    if not paths:
        return {}
    col = _Collector()
    buf = io.StringIO()
    cwd = os.getcwd()
    try:
        os.chdir(tdir)
        with contextlib.redirect_stdout(buf), contextlib.redirect_stderr(buf):
            pytest.main(["-q", "-p", "no:cacheprovider", "-p", "no:randomly",
                         "--no-header", "-x" if False else "-q", "--timeout=600",
                         "-o", "addopts="] + paths, plugins=[col])
    finally:
        os.chdir(cwd)
    return col.outcomes
